"""C03 - exactly the selected tests run, once each, and every mode agrees.

selected(): whole real Runner.run() (Find with found suites -> find_tests ->
tests_from_suite filters, Filter feature, Listing, Runner.ordered_layers,
run_tests, loop-back children) over a world of three layers (unit, A, B) with
levelled tests in nested suites; options drawn from pools (-t / --layer / -u /
-f / --at-level / --all / --only-level / --repeat); modes: sequential, -j1,
-j2, -j3, resumed after NotImplementedError, and --list-tests.
Oracle: an independent selection predicate (Python's re on the concrete names)
gives the expected set; every selected test has exactly `repeat` test events,
all in one process; nothing else runs; --list-tests lists that set per layer
in the order the sequential run executes it and runs no test or layer code."""
import re

from vt import fullrun as FR
from vt import world as W
from vt.util import cb, ci, pick, untraced

LAST = None
TPAT = [[], ['-t', 'a'], ['-t', '!a1'], ['-t', '0'], ['-t', 'b0', '-t', 'a1'], ['-t', '!0', '-t', '!u']]
LPAT = [[], ['--layer', 'w.A'], ['--layer', '!w.A'], ['-u'], ['-f'], ['--layer', 'UnitTests', '--layer', 'w.B'], ['-u', '-f'],
        ['-u', '--layer', 'w.A'], ['--layer', 'w.B', '-f']]      # -u keeps the unit-test layer whatever --layer says
LVL = [[], ['--at-level', '2'], ['--all'], ['--only-level', '2'], ['--at-level', '3'], ['--only-level', '1'],
       ['--all', '--only-level', '2'], ['--only-level', '3', '--all'], ['--at-level', '0', '--only-level', '2']]
SHUF = [[], ['--shuffle', '--shuffle-seed', '7'], ['--shuffle', '--shuffle-seed', '12345']]
NAMES = ['u0', 'u1', 'a0', 'a1', 'b0', 'b1', 'x0', 'b2', 'x1']
LEVELS = {'u0': 1, 'u1': 2, 'a0': 1, 'a1': 2, 'b0': 3, 'b1': 1, 'x0': 1, 'b2': 1, 'x1': 1}
LNAME = {'u': 'zope.testrunner.layer.UnitTests', 'a': 'w.A', 'b': 'w.B', 'x': 'w.A2'}
MODES = FR.MODES + ['list']


def expected(t, l, lv):
    tp = [x for x in t if x != '-t']
    pos = [re.compile(x) for x in tp if not x.startswith('!')]
    neg = [re.compile(x[1:]) for x in tp if x.startswith('!')]
    out = []
    for n in NAMES:
        if pos and not any(r.search(n) for r in pos):
            continue
        if any(r.search(n) for r in neg):
            continue
        lev = LEVELS[n]
        if '--only-level' in lv:          # --only-level wins over --at-level / --all
            if lev != int(lv[lv.index('--only-level') + 1]):
                continue
        elif '--all' in lv:
            pass
        elif '--at-level' in lv:
            at = int(lv[lv.index('--at-level') + 1])
            if at > 0 and lev > at:
                continue
        elif lev > 1:
            continue
        ln = LNAME[n[0]]
        unit = '-u' in l
        nonunit = '-f' in l
        if unit and nonunit:
            unit = nonunit = False
        if unit and n[0] != 'u':
            continue
        if nonunit and n[0] == 'u':
            continue
        lp = [x for x in l if x not in ('--layer', '-u', '-f')]
        if unit:
            lp = []
        if lp:
            lpos = [re.compile(x) for x in lp if not x.startswith('!')]
            lneg = [re.compile(x[1:]) for x in lp if x.startswith('!')]
            if lpos and not any(r.search(ln) for r in lpos):
                continue
            if any(r.search(ln) for r in lneg):
                continue
        out.append(n)
    return out


def _listed(text):
    out = {}
    cur = None
    for ln in text.splitlines():
        m = re.match(r'Listing (\S+) tests:', ln)
        if m:
            cur = m.group(1)
            out[cur] = []
        elif cur is not None and ln.startswith('  '):
            out[cur].append(ln.strip())
        elif ln.strip():
            cur = None
    return out


def selected(mode, t, l, lv, rep2, nest, sh=0, ba=False):
    global LAST
    mode = pick(MODES, mode)
    t, l, lv = pick(TPAT, t), pick(LPAT, l), pick(LVL, lv)
    rep2, nest, ba = cb(rep2), cb(nest), cb(ba)
    sh = pick(SHUF, sh)
    # the random module itself is replaced while CrossHair traces; --shuffle therefore draws from a recorded stream
    # (the C11 stub: same seed -> same stream in every process of the run)
    from harness import c11
    import random as _random
    from zope.testrunner import shuffle as SH
    if sh:
        c11.install_rng([3, 1, 4, 1, 5, 9, 2, 6, 5, 3, 5, 8, 9, 7, 9, 3] if sh[-1] == '7' else [2, 7, 1, 8, 2, 8, 1, 8, 2, 8, 4, 5, 9, 0, 4, 5])
    else:
        SH.random = _random
    with untraced():
        tdd = {'A': 2} if mode == 'nie' else {}
        world = FR.World({n: W.PASS for n in NAMES}, td=tdd, levels=LEVELS, b_on_a=ba,      # ba: w.B derives from w.A, so it runs before w.A2 although its name sorts after it
                          order=['b0', 'u1', 'x0', 'a1', 'b1', 'a0', 'u0', 'b2', 'x1'], nest=nest, suite_level=5)
    argv = t + l + lv + (['--repeat', '2'] if rep2 else []) + sh
    ref = FR.run(world, 'seq', argv=argv)
    if mode == 'list':
        res = FR.run(world, 'seq', argv=argv + ['--list-tests'])
    else:
        res = FR.run(world, mode, argv=argv)
    with untraced():
        why = oracle(mode, t, l, lv, rep2, ref, res)
    LAST = (mode, tuple(t), tuple(l), tuple(lv), rep2, nest, why, tuple(e[2] for e in res.trace if e[1] == 'test'), tuple(sh), ba)
    return why is None


def oracle(mode, t, l, lv, rep2, ref, res):
    exp = expected(t, l, lv)
    rep = 2 if rep2 else 1
    for r, what in ((ref, 'sequential run'), (res, 'mode ' + mode)):
        if r.escaped:
            return '%s: exception %s escaped' % (what, r.escaped)
        if r.thread_exc:
            return '%s: exception in a runner thread %r' % (what, r.thread_exc)
    ran = {}
    for e in ref.trace:
        if e[1] == 'test':
            ran.setdefault(e[2], []).append(e[0])
    if sorted(ran) != sorted(exp) or any(len(v) != rep for v in ran.values()):
        return 'sequential run executed %r, selected (x%d) %r' % ({k: len(v) for k, v in sorted(ran.items())}, rep, exp)
    if mode == 'list':
        if any(e[1] in ('test', 'su', 'td', 'setUp') for e in res.trace):
            return '--list-tests ran test or layer code: %r' % ([e for e in res.trace if e[1] in ('test', 'su', 'td')][:3],)
        listed = _listed(res.text)
        flat = [n for v in listed.values() for n in v]
        if sorted(flat) != sorted(exp):
            return '--list-tests lists %r, selected %r' % (sorted(flat), exp)
        order = {}
        for e in ref.trace:
            if e[1] == 'test':
                ly = LNAME[e[2][0]]
                if e[2] not in order.setdefault(ly, []):
                    order[ly].append(e[2])
        for ly, names in listed.items():
            if names != order.get(ly, []):
                return '--list-tests order for %s is %r, the run executes %r' % (ly, names, order.get(ly))
        seq_layers = []
        for e in ref.trace:
            if e[1] == 'test' and LNAME[e[2][0]] not in seq_layers:
                seq_layers.append(LNAME[e[2][0]])
        if [k for k in listed if listed[k]] != seq_layers:
            return '--list-tests layer order %r, run order %r' % (list(listed), seq_layers)
        return None
    got = {}
    for e in res.trace:
        if e[1] == 'test':
            got.setdefault(e[2], []).append(e[0])
    if sorted(got) != sorted(exp):
        return 'mode %s executed %r, selected %r' % (mode, sorted(got), exp)
    for n, pids in got.items():
        if len(pids) != rep:
            return 'mode %s: test %s executed %d times, expected %d' % (mode, n, len(pids), rep)
        if len(set(pids)) != 1:
            return 'mode %s: test %s ran in several processes %r' % (mode, n, pids)
    # per-layer order equals the sequential order (default order is discovery order)
    for ly in 'uabx':
        a = [e[2] for e in ref.trace if e[1] == 'test' and e[2][0] == ly]
        b = [e[2] for e in res.trace if e[1] == 'test' and e[2][0] == ly]
        if a != b:
            return 'mode %s: layer %s order %r differs from sequential %r' % (mode, ly, b, a)
    return None


def selected_reach(*a):
    selected(*a)
    return LAST[6] is None and LAST[0] == 'j2' and len(LAST[7]) >= 3


_P = [('mode', 'int'), ('t', 'int'), ('l', 'int'), ('lv', 'int'), ('rep2', 'bool'), ('nest', 'bool'), ('sh', 'int'), ('ba', 'bool')]
_C = ', '.join(n for n, _ in _P)
_B = '0 <= sh < 3 and 0 <= mode < %d and 0 <= t < %d and 0 <= l < %d and 0 <= lv < %d' % (len(MODES), len(TPAT), len(LPAT), len(LVL))
_Q = _B + ' and (sh == 0 or (not rep2 and t <= 1 and lv <= 2 and l <= 2 and sh == 1)) and (not rep2 or (t <= 1 and l <= 1)) and ((t == 0) + (l == 0) + (lv == 0) >= 1) and (not ba or (t == 0 and lv == 0 and not rep2 and sh == 0 and l <= 2))'


def _v(**kw):
    v = dict(mode=0, t=0, l=0, lv=0, rep2=False, nest=True, sh=0, ba=False)
    v.update(kw)
    return v


SPEC = {
    'property': 'C03',
    'encoded': ['zope.testrunner.find.find_tests', 'find.tests_from_suite', 'filter.Filter.global_setup', 'filter.build_filtering_func', 'listing.Listing',
                'zope.testrunner.runner.Runner.run / ordered_layers / run_tests', 'runner.run_tests', 'runner.resume_tests / spawn_layer_in_subprocess',
                'process.SubProcess', 'formatter.OutputFormatter.list_of_tests', 'options.get_options (post-processing of -u/-f/--all)'],
    'files': ['src/zope/testrunner/runner.py', 'src/zope/testrunner/find.py', 'src/zope/testrunner/filter.py', 'src/zope/testrunner/listing.py',
              'src/zope/testrunner/process.py', 'src/zope/testrunner/options.py'],
    'stubs': ['LoopbackPopen children, synchronous threads, get_options untraced on concrete argv', 'found_suites given (discovery from disk is C14)',
              'runner.time, runner.gc'],
    'assumptions': ['the independent selection predicate is the C08/C09 specification evaluated with Python\'s re on the concrete names'],
    'outside': ['--shuffle with a symbolic random stream (C11); here two concrete seeds through the real random module', 'more than 6 tests in 3 layers', 'option pools are finite'],
    'harnesses': [
        {'name': 'selected', 'fn': 'selected', 'params': _P, 'call': _C,
         'bounds': {'quick': _Q, 'thorough': _B},
         'slices': {'quick': ['mode == %d and lv %% 3 == %d' % (m, k) for m in range(len(MODES)) for k in range(3)],
                    'thorough': ['mode == %d and lv == %d and %s' % (m, k, n) for m in range(len(MODES)) for k in range(len(LVL)) for n in ('nest', 'not nest')]},
         'reach': 'selected_reach', 'reach_bounds': {'quick': _B + ' and t == 0 and l == 0 and lv == 0', 'thorough': _B + ' and t == 0 and l == 0 and lv == 0'},
         'timeout': {'quick': 400, 'thorough': 1700},
         'fidelity': [_v(), _v(mode=5, t=2, lv=2), _v(mode=2, l=2, lv=1, rep2=True), _v(mode=1, t=4, l=5, lv=4, nest=False), _v(mode=4, l=3), _v(mode=1, sh=1), _v(mode=5, sh=2, lv=2), _v(mode=5, ba=True), _v(mode=2, ba=True, lv=6), _v(mode=1, lv=8, t=1)]},
    ],
}
