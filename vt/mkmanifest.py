"""Regenerates MANIFEST.json from the harness SPECs present (run by hand)."""
import importlib
import json
import os
import sys

VERIF = os.path.dirname(os.path.dirname(os.path.abspath(__file__)))
sys.path.insert(0, VERIF)
NA = {}   # property -> reason (filled below)
ALL = ['C%02d' % i for i in range(1, 21)]


def main():
    checks = []
    na = []
    for p in ALL:
        path = os.path.join(VERIF, 'harness', p.lower() + '.py')
        if not os.path.exists(path) or os.path.exists(path + '.disabled'):
            na.append({'property_id': p, 'reason': NA.get(p, 'harness not built yet (solver-based check planned in DESIGN.md section 3); not claimed')})
            continue
        H = importlib.import_module('harness.' + p.lower())
        S = H.SPEC
        checks.append({
            'property_id': p,
            'quick_cmd': './check %s --tier quick' % p,
            'thorough_cmd': './check %s --tier thorough' % p,
            'evidence_file': 'evidence/%s.json' % p,
            'replay_cmd_template': './check %s --replay {path}' % p,
            'engine': 'crosshair-real-code',
            'level_claimed': {
                'category': 'model_checking',
                'text': S.get('level_text', 'Bounded symbolic execution of the real functions (' + ', '.join(S['encoded'][:4]) + (', ...' if len(S['encoded']) > 4 else '') + ') with CrossHair/z3: every feasible path within the stated bounds is explored and the property is asserted on each; a counterexample is replayed natively before it is reported.'),
                'design_ref': 'DESIGN.md section 3, ' + p,
            },
            'level_note': S.get('level_note', 'Trusted: CrossHair 0.0.110 + z3 5.1 symbolic semantics of Python 3.12 (cross-checked per harness by fidelity twins and reachability twins); stubs: ' + ('; '.join(S.get('stubs', [])) or 'none') + '. Outside the claim: ' + ('; '.join(S.get('outside', [])) or 'nothing further') + '.'),
            'technique': S.get('technique', 'CrossHair symbolic execution of the real code with z3 (bounded, path-exhaustive), native replay of counterexamples'),
        })
    m = {
        'version': 1,
        'setup_cmd': './setup.sh',
        'hooks': {
            'guard': 'ZOPE_TESTRUNNER_VERIF',
            'enable': 'no source hooks: every stub is installed by rebinding module globals of zope.testrunner.* inside the harness process',
            'baseline_off_cmd': 'cd /repo && /venv/bin/python -m pytest -ra -q -p no:cacheprovider --timeout=900 --continue-on-collection-errors',
            'source_commits': [],
            'add_only': True,
        },
        'engines': [
            {'name': 'crosshair-real-code', 'path': 'vt/engine.py',
             'serves_properties': [c['property_id'] for c in checks],
             'kind_free_text': 'CrossHair 0.0.110 (z3 5.1) symbolic execution of zope.testrunner functions imported from /repo/src; '
                               'one worker process per harness slice; reachability + fidelity twins; native replay'},
        ],
        'checks': checks,
        'not_applicable': na,
        'notes': 'See DESIGN.md. Exit 0 = held within bounds, 1 = VIOLATION (replayed natively), 2 = harness error. known_findings.json lists recorded findings and fixed: entries.',
    }
    json.dump(m, open(os.path.join(VERIF, 'MANIFEST.json'), 'w'), indent=1)
    print('checks:', [c['property_id'] for c in checks])


if __name__ == '__main__':
    main()
