"""C16 - --stop-on-error stops after the first failing test but still cleans up.

Real Runner.run_tests / run_layer / run_tests() / TestResult.add* stop calls.
Symbolic: position and kind of the first bad outcome, kinds of the tests
before / after it, a layer whose setUp fails, --repeat, topology, -x itself."""
from zope.testrunner import runner as R

from vt import runworld as RW
from vt import world as W
from vt.util import FakeGC, FakeTime, cb, ci, pick, untraced

R.time = FakeTime
R.gc = FakeGC
R.TestResult._exc_info_to_string = lambda self, err, test: 'traceback'
LAST = None
BADK = [W.FAIL, W.ERROR, W.XPASS, W.SUBFAIL2, W.ERR_TD, W.SETUP_ERR, W.SUB_ERR]
PREK = [W.PASS, W.SKIP_BODY, W.XFAIL, W.SKIP_DECO]
POSTK = [W.PASS, W.FAIL, W.ERROR]
NAMES = ['a0', 'a1', 'b0', 'b1', 'c0']
LAYER_OF = ['A', 'A', 'B', 'B', 'C']


class Out(RW.RecOut):
    def test_failure(self, test, *a, **k):
        W.ev('bad', str(test))

    def test_error(self, test, *a, **k):
        W.ev('bad', str(test))

    def layer_failure(self, *a):
        W.ev('bad', 'layer')


def stop(pos, kb, kpre, kpost, su_fault, rep2, topo, x, tdn=0):
    global LAST
    W.reset()
    tdn = ci(tdn, 0, 3)          # chain topology only: layer tdn-1 (A, B, C) cannot be torn down (NotImplementedError in the final pass)
    pos = ci(pos, 0, 5)
    kb, kpre, kpost = pick(BADK, kb), pick(PREK, kpre), pick(POSTK, kpost)
    su_fault = ci(su_fault, 0, 3)
    rep2, x = cb(rep2), cb(x)
    topo = ci(topo, 0, 1)
    kinds = [kpre if i < pos else (kb if i == pos else kpost) for i in range(5)]
    with untraced():
        if not topo:
            tdn = 0
        A = W.mk_layer('A', (), su=int(su_fault == 0), td=2 if tdn == 1 else 0, hooks='st')
        B = W.mk_layer('B', (A,) if topo else (), su=int(su_fault == 1), td=2 if tdn == 2 else 0, hooks='st')
        C = W.mk_layer('C', (B,) if topo else (), su=int(su_fault == 2), td=2 if tdn == 3 else 0, hooks='st')
        tests = [W.mk_test(n, k) for n, k in zip(NAMES, kinds)]
    o = RW.options((['-x'] if x else []) + (['--repeat', '2'] if rep2 else []), out_cls=Out)
    r = RW.make_runner(o, [(C, tests[4:]), (A, tests[:2]), (B, tests[2:4])])
    r.run_tests()
    with untraced():
        why = oracle([e for e in W.TRACE], r, x, topo, su_fault)
    LAST = (tuple(kinds), su_fault, rep2, topo, x, why, tuple(e[1:3] for e in W.TRACE if e[1] in ('su', 'td', 'setUp', 'bad', 'summary')), tdn)
    return why is None


def oracle(trace, r, x, topo, su_fault):
    first_bad = None
    up = []
    n_sum_after = 0
    for i, e in enumerate(trace):
        k = e[1]
        if k == 'bad' and first_bad is None:
            first_bad = i
        elif first_bad is not None and x:
            if k in ('setUp', 'start'):
                return 'test %s started after the first failure/error' % e[2]
            if k == 'su':
                return 'layer %s set up after the first failure/error' % e[2]
        if k == 'su':
            up.append(e[2])
        elif k == 'td':
            if e[2] not in up:
                return 'tearDown without setUp: %s' % e[2]
            up.remove(e[2])
        elif k == 'summary' and first_bad is not None:
            n_sum_after += 1
    failed_su = {0: 'A', 1: 'B', 2: 'C'}.get(su_fault)
    if [u for u in up if u != failed_su]:
        return 'layers left set up: %r' % up
    if first_bad is not None:
        if not r.failed:
            return 'verdict is passed although something failed'
        bad_ev = trace[first_bad]
        if bad_ev[2] != 'layer' and n_sum_after < 1:
            return 'no summary after the failing test'
    elif r.failed:
        return 'verdict failed without any failure'
    if not x or first_bad is None:
        # control: nothing is skipped without -x / without a failure
        started = {e[2] for e in trace if e[1] in ('setUp', 'start')}
        exp = set(NAMES)
        for li, ln in enumerate('ABC'):
            blocked = su_fault == li or (topo and su_fault < li and su_fault != 3)
            if blocked:
                exp -= {n for n, l in zip(NAMES, LAYER_OF) if l == ln}
        if started != exp:
            return 'tests started %r, expected %r' % (sorted(started), sorted(exp))
    return None


def stop_reach(*a):
    stop(*a)
    return LAST[5] is None and LAST[4] and W.FAIL in LAST[0] and any(e == ('bad', 'a1') for e in LAST[6])


CHILD_BAD = [W.FAIL, W.ERROR, W.XPASS, W.SUBFAIL2, W.SUB_ERR, W.TD_ERR]


def stop_child(mode, kb, pos, rep2):
    """-x inside a layer subprocess (-j2 / -j3 / resumed after a NotImplementedError tearDown): whole real runs with
    loop-back children; after the first bad outcome no further test starts in that process."""
    global LAST
    from vt import fullrun as FR
    mode = pick(['j2', 'nie', 'j3', 'seq'], mode)
    kb = pick(CHILD_BAD, kb)
    pos = ci(pos, 0, 2)
    rep2 = cb(rep2)
    with untraced():
        kinds = {'a0': W.PASS, 'b0': W.PASS, 'b1': W.PASS, 'b2': W.PASS}
        kinds['b%d' % pos] = kb
        world = FR.World(kinds, td={'A': 2} if mode == 'nie' else {}, order=['a0', 'b0', 'b1', 'b2'])
    res = FR.run(world, mode, argv=['-x'] + (['--repeat', '2'] if rep2 else []))
    with untraced():
        why = None
        if res.escaped or res.thread_exc:
            why = 'exception %r / %r' % (res.escaped, res.thread_exc)
        started = [(e[0], e[2]) for e in res.trace if e[1] == 'setUp' and e[2].startswith('b')]
        exp = ['b%d' % i for i in range(pos + 1)]
        if why is None and [n for _p, n in started] != exp:
            why = 'tests of the failing layer started: %r, expected %r (first bad outcome: %s at b%d, mode %s)' % (
                [n for _p, n in started], exp, W.KIND_NAMES[kb], pos, mode)
        if why is None and not res.failed:
            why = 'verdict passed'
        ups = [e[2] for e in res.trace if e[1] == 'su']
        downs = [e[2] for e in res.trace if e[1] == 'td']
        if why is None and sorted(ups) != sorted(downs):
            why = 'layers set up %r but torn down %r' % (ups, downs)
    LAST = (mode, W.KIND_NAMES[kb], pos, rep2, why, tuple(started))
    return why is None


def stop_child_reach(*a):
    stop_child(*a)
    return LAST[4] is None and len({p for p, _n in LAST[5]}) == 1 and LAST[5][0][0] != 0


_P = [('pos', 'int'), ('kb', 'int'), ('kpre', 'int'), ('kpost', 'int'), ('su_fault', 'int'), ('rep2', 'bool'), ('topo', 'int'), ('x', 'bool'), ('tdn', 'int')]
_C = ', '.join(n for n, _ in _P)
_B = '0 <= tdn <= 3 and (topo == 1 or tdn == 0) and 0 <= pos <= 5 and 0 <= kb < %d and 0 <= kpre < %d and 0 <= kpost < %d and 0 <= su_fault <= 3 and 0 <= topo <= 1' % (len(BADK), len(PREK), len(POSTK))


def _v(**kw):
    v = dict(pos=1, kb=0, kpre=0, kpost=1, su_fault=3, rep2=False, topo=0, x=True, tdn=0)
    v.update(kw)
    return v


SPEC = {
    'property': 'C16',
    'encoded': ['zope.testrunner.runner.Runner.run_tests (layer loop, stop_on_error break, left-over tear down)', 'runner.run_layer',
                'runner.run_tests (repeat loop, shouldStop)', 'runner.TestResult.addError/addFailure/addSubTest/addUnexpectedSuccess (stop())',
                'runner.tear_down_unneeded', 'runner.setup_layer'],
    'files': ['src/zope/testrunner/runner.py'],
    'stubs': ['options.output -> recorder (test_failure/test_error/layer_failure mark the first bad event)', 'runner.time, runner.gc',
              'unittest.TestResult._exc_info_to_string -> constant'],
    'assumptions': ['--shuffle only permutes tests inside a layer; it is covered here by the symbolic position of the first bad test'],
    'outside': ['more than 5 tests in 3 layers (stop) / 3 tests in the failing layer (stop_child)'],
    'harnesses': [
        {'name': 'stop', 'fn': 'stop', 'params': _P, 'call': _C,
         'bounds': {'quick': _B + ' and (su_fault == 3 or pos >= 4) and kpost == 1 and (kpre == 0 or not rep2) and (tdn == 0 or (su_fault == 3 and kpre == 0 and not rep2 and kb <= 1))', 'thorough': _B + ' and (tdn == 0 or su_fault == 3)'},
         'slices': {'quick': ['pos == %d and %s and topo == %d' % (p, xx, t) for p in range(6) for xx in ('x', 'not x') for t in (0, 1)],
                    'thorough': ['pos == %d and %s and su_fault == %d and topo == %d' % (p, xx, s, t) for p in range(6) for xx in ('x', 'not x') for s in range(4) for t in (0, 1)]},
         'reach': 'stop_reach', 'reach_bounds': {'quick': _B + ' and su_fault == 3 and kpre == 0 and kpost == 0 and not rep2 and topo == 0',
                                                 'thorough': _B + ' and su_fault == 3 and kpre == 0 and kpost == 0 and not rep2 and topo == 0'},
         'timeout': {'quick': 240, 'thorough': 850},
         'fidelity': [_v(), _v(pos=0, kb=3, rep2=True, topo=1), _v(pos=5, su_fault=1, topo=1), _v(pos=2, kb=2, x=False), _v(pos=3, topo=1, tdn=2), _v(pos=4, topo=1, tdn=3, x=False)]},
        {'name': 'stop_child', 'fn': 'stop_child', 'params': [('mode', 'int'), ('kb', 'int'), ('pos', 'int'), ('rep2', 'bool')], 'call': 'mode, kb, pos, rep2',
         'bounds': {'quick': '0 <= mode <= 3 and 0 <= kb < %d and 0 <= pos <= 2' % len(CHILD_BAD), 'thorough': '0 <= mode <= 3 and 0 <= kb < %d and 0 <= pos <= 2' % len(CHILD_BAD)},
         'slices': {'quick': ['mode == %d' % m for m in range(4)], 'thorough': ['mode == %d and pos == %d' % (m, p) for m in range(4) for p in range(3)]},
         'reach': 'stop_child_reach', 'reach_bounds': {'quick': 'mode == 0 and 0 <= kb < 2 and 0 <= pos <= 2', 'thorough': 'mode == 0 and 0 <= kb < 2 and 0 <= pos <= 2'},
         'timeout': {'quick': 300, 'thorough': 600},
         'fidelity': [dict(mode=0, kb=0, pos=0, rep2=True), dict(mode=1, kb=3, pos=1, rep2=False)]},
    ],
}
