"""Runs every seeded change under /verif/seeded against the quick check of the
property it was written for (plus any extra checks named on the command line
as Cxx-a=Cyy,Czz), never touching /repo: each change is applied to a scratch
worktree (see ./muttest).  Updates seeded/<id>/meta.json ("caught_by") and
writes seeded/MATRIX.md.

usage: python -m vt.mutmatrix [--tier quick] [--only C01-a,C02-b] [Cxx-a=Cyy ...]"""
import json
import os
import re
import subprocess
import sys
import time

VERIF = os.path.dirname(os.path.dirname(os.path.abspath(__file__)))
EXTRA = {
    'C02-b': ['C14'], 'C08-a': ['C14'], 'C10-b': ['C01', 'C03'], 'C03-a': ['C01', 'C10'], 'C12-b': ['C07'], 'C07-b': ['C06'], 'C06-b': ['C07'],
    'C12-a': ['C07'], 'C02-a': ['C07'],
}


def run_one(mid, check, tier):
    patch = os.path.join(VERIF, 'seeded', mid, 'patch.diff')
    env = dict(os.environ, MUT_SHOW='1')
    t0 = time.time()
    p = subprocess.run([os.path.join(VERIF, 'muttest'), patch, tier, check], capture_output=True, text=True, env=env, cwd=VERIF)
    out = p.stdout
    m = re.search(r'^%s rc=(\d+) (\d+) violation' % check, out, re.M)
    rc, nv = (int(m.group(1)), int(m.group(2))) if m else (None, None)
    first = ''
    for ln in out.splitlines():
        if ln.startswith('  replay:'):
            first = ln[len('  replay: '):][:500]
            break
    summ = ''
    m2 = re.search(r'%s %s: .*' % (check, tier), out)
    if m2:
        summ = m2.group(0)[:200]
    return {'check': check, 'tier': tier, 'rc': rc, 'violations': nv, 'caught': rc == 1 and (nv or 0) > 0, 'first_counterexample': first, 'summary': summ,
            'wall_s': round(time.time() - t0)}


def main():
    args = sys.argv[1:]
    tier = 'quick'
    only = None
    extra = dict(EXTRA)
    i = 0
    while i < len(args):
        a = args[i]
        if a == '--tier':
            tier = args[i + 1]
            i += 1
        elif a == '--only':
            only = args[i + 1].split(',')
            i += 1
        elif '=' in a:
            k, v = a.split('=')
            extra[k] = v.split(',')
        i += 1
    ids = sorted(d for d in os.listdir(os.path.join(VERIF, 'seeded')) if os.path.isdir(os.path.join(VERIF, 'seeded', d)))
    for mid in ids:
        if only and mid not in only:
            continue
        mp = os.path.join(VERIF, 'seeded', mid, 'meta.json')
        meta = json.load(open(mp))
        res = meta.get('caught_by') if isinstance(meta.get('caught_by'), list) else []
        checks = [meta['property']] + extra.get(mid, [])
        for c in checks:
            r = run_one(mid, c, tier)
            res = [x for x in res if not (x['check'] == c and x['tier'] == tier)] + [r]
            print(mid, c, tier, 'CAUGHT' if r['caught'] else 'missed', r['summary'], flush=True)
        meta['caught_by'] = res
        json.dump(meta, open(mp, 'w'), indent=1)
    write_matrix(ids)


def write_matrix(ids):
    lines = ['# Seeded changes x checks', '',
             'Each row is one change kept under `seeded/<id>/` (patch.diff, demo.py, notes.md, meta.json).  "own" is the check of the property the change was '
             'written to break; further columns are other checks that were also run against it.  A cell shows the tier, the number of counterexamples the '
             'check reported (each replayed natively before it was printed) or `missed`.', '',
             '| change | property | own check | other checks | first counterexample (own check) |', '|---|---|---|---|---|']
    for mid in ids:
        meta = json.load(open(os.path.join(VERIF, 'seeded', mid, 'meta.json')))
        cb = meta.get('caught_by') if isinstance(meta.get('caught_by'), list) else []
        own = [x for x in cb if x['check'] == meta['property']]
        oth = [x for x in cb if x['check'] != meta['property']]

        def cell(x):
            return '%s %s: %s' % (x['check'], x['tier'], ('%d violations' % x['violations']) if x['caught'] else 'missed')
        first = own[-1]['first_counterexample'].replace('|', '\\|')[:220] if own else ''
        lines.append('| %s | %s | %s | %s | `%s` |' % (mid, meta['property'], '; '.join(cell(x) for x in own) or '-', '; '.join(cell(x) for x in oth) or '-', first))
    open(os.path.join(VERIF, 'seeded', 'MATRIX.md'), 'w').write('\n'.join(lines) + '\n')


if __name__ == '__main__':
    main()
