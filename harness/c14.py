"""C14 - discovery loads exactly the matching test modules, once, in sorted order.

files():  real find.find_test_files / find_test_files_ / walk_with_symlinks /
          test_dirs / strip_py_ext / contains_init_py over an in-memory tree
          (find.os replaced) whose directory and file names are symbolic pool
          choices, with symbolic enumeration order, search-path sets (single,
          repeated, nested in both orders), --usecompiled, a custom
          --tests-pattern.
suites(): real find.find_suites on top of it: module naming (longest prefix,
          --package-path package), --module filter applied *before* import
          (find.import_name replaced by a recorder that can raise, incl.
          SystemExit), modules that fail to import become StartUpFailures.
Oracle: an independent recursive predicate over the tree description."""
import re
import types
import unittest

from zope.testrunner import find as F
from zope.testrunner.filter import build_filtering_func

from vt import fakeos as FO
from vt import runworld as RW
from vt.util import cb, ci, pick, untraced

LAST = None
DNAMES = ['tests', 'pkg', 'ftests', '1bad', 'good_2', '.git', 'node_modules', 'my-dir', '__pycache__', 'CVS', 'lambda', 'async']      # the last two: identifiers that are keywords
FNAMES = ['tests.py', 'test_a.py', 'a.py', 'ftests.py', 'tests.txt', 'tests.pyc', 'test_b.pyc', 'testsfoo.py', 'checks.py', 'test_a.pyc', 'tests.pyo', '__init__.pyc']
PATHSETS = [['/r'], ['/r', '/r'], ['/r', '/r/D1'], ['/r/D1', '/r'], ['/r/D1/D2', '/r', '/r/D1']]
PATTERNS = [[], ['--tests-pattern', '^(tests|checks)$'], ['--tests-pattern', '^f?tests$', '--test-file-pattern', '^(test|a)'],
            ['--ignore_dir', 'good_2'], ['--ignore_dir', 'pkg', '--ignore_dir', 'zlast']]      # --ignore_dir adds to the default ignore list
IDENT = re.compile(r'[_a-z]\w*$', re.I)
IGNORE = {'.git', 'node_modules', '__pycache__'}
DEFAULT_IGNORE_DIR = {'.git', '.svn', 'CVS', '{arch}', '.arch-ids', '_darcs'}       # documented defaults of --ignore_dir


def build(d1, d2, f_root, f1a, f1b, f2, init1, init2, rev, link=0):
    t = FO.Tree()
    t.add_dir('/r')
    D1 = '/r/' + d1
    D2 = D1 + '/' + d2
    t.add_dir(D1, link=(link == 1))        # link: the directory is a symlink (same rules as a real directory)
    t.add_dir(D2, link=(link == 2))
    t.add_dir('/r/zlast')
    for d, names in (('/r', [f_root, 'zz.py']), (D1, [f1a, f1b] + (['__init__.py'] if init1 else [])), (D2, [f2, 'tests.py'] + (['__init__.py'] if init2 else [])),
                     ('/r/zlast', ['tests.py'])):
        for n in names:
            if n not in t.dirs[d][1]:
                t.add_file(d + '/' + n)
    if rev:
        for d, (subs, fl) in t.dirs.items():
            subs.reverse()
            fl.reverse()
    return t, D1, D2


def expected(tree, roots, usecompiled, tests_pat, file_pat, ignore_dir):
    out = []

    def noext(f):
        if f.endswith('.py'):
            return f[:-3]
        if usecompiled and f.endswith('.pyc'):
            return f[:-4]
        return None

    def visit(d):
        subs, files = tree.dirs[d]
        base = d.rsplit('/', 1)[1]
        has_init = '__init__.py' in files or (usecompiled and '__init__.pyc' in files)
        best = {}
        for f in files:
            n = noext(f)
            if not n:
                continue
            if tests_pat.search(n) or (tests_pat.search(base) and has_init and file_pat.search(n)):
                p = d + '/' + f
                best[n] = min(best.get(n, p), p)
        for p in sorted(best.values()):
            if p not in out:
                out.append(p)
        for s in sorted(subs):
            if IDENT.match(s) and s not in IGNORE and s not in ignore_dir:
                visit(d + '/' + s)
    for r in roots:
        if r in tree.dirs:
            visit(r)
    return out


def setup(d1, d2, f_root, f1a, f1b, f2, init1, init2, rev, usec, pat, paths, link=0):
    d1, d2 = pick(DNAMES, d1), pick(['tests', 'sub'], d2)
    f_root, f1a, f1b, f2 = (pick(FNAMES, x) for x in (f_root, f1a, f1b, f2))
    init1, init2, rev, usec = map(cb, (init1, init2, rev, usec))
    pat = pick(PATTERNS, pat)
    pathsk = pick(PATHSETS, paths)
    link = ci(link, 0, 2)
    with untraced():
        tree, D1, D2 = build(d1, d2, f_root, f1a, f1b, f2, init1, init2, rev, link)
        roots = [p.replace('/r/D1/D2', D2).replace('/r/D1', D1) for p in pathsk]
        o = RW.options((['--usecompiled'] if usec else []) + pat)
        o.test_path = [(p, '') for p in roots]
        o.prefix = sorted([(p + '/', '') for p in roots], key=lambda x: len(x[0]), reverse=True)
    return tree, roots, o, (d1, d2, f_root, f1a, f1b, f2, init1, init2, rev, usec, tuple(pat), tuple(pathsk))


_IGNORE_FOLDERS = frozenset(F.IGNORE_FOLDERS)


def files(*a):
    global LAST
    a = list(a)
    prior = cb(a.pop()) if len(a) > 13 else False
    tree, roots, o, desc = setup(*a)
    fos = FO.FakeOS(tree)
    saved = F.os
    F.os = fos
    F.IGNORE_FOLDERS = set(_IGNORE_FOLDERS)          # module-level state of a fresh interpreter
    try:
        if prior:
            # an earlier discovery in the same process (run_internal called twice) that was asked to ignore the directory:
            # this run was not, and must find what is in it
            with untraced():
                o0 = RW.options(['--ignore_dir', desc[0]])
                o0.test_path, o0.prefix = o.test_path, o.prefix
            list(F.find_test_files(o0))
            del fos.calls[:]
        got = [f for f, _pkg in F.find_test_files(o)]
    finally:
        F.os = saved
    with untraced():
        pa = list(desc[10])
        tp = re.compile(pa[pa.index('--tests-pattern') + 1]) if '--tests-pattern' in pa else re.compile('^tests$')
        fp = re.compile(pa[pa.index('--test-file-pattern') + 1]) if '--test-file-pattern' in pa else re.compile('^test')
        extra_ignore = {pa[i + 1] for i, x in enumerate(pa) if x == '--ignore_dir'}
        exp = expected(tree, roots, desc[9], tp, fp, DEFAULT_IGNORE_DIR | extra_ignore)
        why = None
        if fos.calls:
            why = 'discovery modified the file system: %r' % (fos.calls[:2],)
        elif len(got) != len(set(got)):
            why = 'file yielded twice: %r' % (got,)
        elif set(got) != set(exp):
            why = 'found %r, matching files are %r' % (sorted(got), sorted(exp))
        elif got != exp:
            why = 'order %r, sorted discovery order is %r' % (got, exp)
    LAST = desc + (why, tuple(got))
    return why is None


def files_reach(*a):
    files(*a)
    return LAST[12] is None and len(LAST[13]) >= 4


# ------------------------------------------------------------------ find_suites

MODPAT = [[], ['-m', 'tests'], ['-m', '!test_a'], ['-m', r'^kp\.'], ['-m', '!kp'], ['-m', 'D1.tests$']]
IMPORT_FAIL = [None, ImportError, SystemExit, SyntaxError]


def suites(d1, f1a, f1b, init1, rev, mp, pkg, failkind, failwhich):
    global LAST
    tree, roots, o, desc = setup(d1, 0, 2, f1a, f1b, 2, init1, True, rev, False, 0, 0)
    mp = pick(MODPAT, mp)
    pkg = cb(pkg)              # the search path is knit in as package 'kp' (--package-path)
    failkind = pick(IMPORT_FAIL, failkind)
    failwhich = ci(failwhich, 0, 2)
    with untraced():
        o2 = RW.options(mp)
        o.module = o2.module
        if pkg:
            o.test_path = [('/r', 'kp')]
            o.prefix = [('/r/', 'kp')]
    imported = []

    def fake_import(name):
        imported.append(name)
        if failkind is not None and len(imported) - 1 == failwhich:
            raise failkind('injected')
        m = types.ModuleType(name)
        m.test_suite = lambda: unittest.TestSuite()
        return m
    fos = FO.FakeOS(tree)
    saved = F.os, F.import_name
    F.os, F.import_name = fos, fake_import
    escaped = None
    got = []
    try:
        try:
            accept = build_filtering_func(o.module)
            for s in F.find_suites(o, accept=accept):
                got.append(s)
        except BaseException as e:     # noqa
            if type(e).__name__ in ('IgnoreAttempt', 'UnexploredPath', 'NotDeterministic', 'CrossHairInternal', 'PathTimeout'):
                raise
            escaped = type(e).__name__
    finally:
        F.os, F.import_name = saved
    with untraced():
        exp_files = expected(tree, roots, False, re.compile('^tests$'), re.compile('^test'), DEFAULT_IGNORE_DIR)
        mods = []
        for p in exp_files:
            m = p[len('/r/'):-3].replace('/', '.')
            if pkg:
                m = 'kp.' + m
            mods.append(m)
        pos = [re.compile(x) for x in o.module if not x.startswith('!')]
        neg = [re.compile(x[1:]) for x in o.module if x.startswith('!')]
        want = [m for m in mods if (not pos or any(r.search(m) for r in pos)) and not any(r.search(m) for r in neg)]
        why = None
        if escaped:
            why = 'exception %s escaped from find_suites (a module that cannot be imported must become an import error)' % escaped
        elif imported != want:
            why = 'imported %r, selected modules are %r (filter %r)' % (imported, want, o.module)
        elif len(got) != len(want):
            why = '%d suites for %d modules' % (len(got), len(want))
        else:
            for i, s in enumerate(got):
                failed = failkind is not None and i == failwhich
                if failed != isinstance(s, F.StartUpFailure):
                    why = 'module %s: import %s but suite is %r' % (want[i], 'failed' if failed else 'worked', type(s).__name__)
    LAST = desc[:1] + desc[3:5] + (desc[6], desc[8], tuple(mp), pkg, getattr(failkind, '__name__', None), failwhich, why, tuple(imported))
    return why is None


def suites_reach(*a):
    suites(*a)
    return LAST[9] is None and len(LAST[10]) >= 3


_P = [('d1', 'int'), ('d2', 'int'), ('f_root', 'int'), ('f1a', 'int'), ('f1b', 'int'), ('f2', 'int'), ('init1', 'bool'), ('init2', 'bool'), ('rev', 'bool'),
      ('usec', 'bool'), ('pat', 'int'), ('paths', 'int'), ('link', 'int'), ('prior', 'bool')]
_C = ', '.join(n for n, _ in _P)
_ND, _NF = len(DNAMES), len(FNAMES)
_B = ('0 <= link <= 2 and 0 <= d1 < %d and 0 <= d2 <= 1 and 0 <= f_root < %d and 0 <= f1a < %d and 0 <= f1b < %d and 0 <= f2 < %d and 0 <= pat < %d and 0 <= paths < %d'
      % (_ND, _NF, _NF, _NF, _NF, len(PATTERNS), len(PATHSETS)))
_Q = (_B + ' and (not prior or (pat == 0 and paths == 0 and link == 0 and not usec and f1a <= 1)) and (link == 0 or (paths == 0 and pat == 0 and not usec and f1a <= 1)) and f_root == 2 and d2 == 0 and f2 == 1 and f1b <= 3 and init2 and (paths == 0 or f1a <= 3) and (paths <= 3) '
      'and (pat == 0 or (d1 <= 2 and f1a <= 3 and paths == 0) or (pat >= 3 and paths == 0 and f1a <= 1 and (d1 == 1 or d1 == 4 or d1 == 9))) and (not usec or (d1 <= 1 and f1a >= 4 and paths == 0 and pat == 0))')
_T = _B + ' and (not prior or (pat == 0 and paths == 0 and link == 0)) and (f_root == 2 or f_root == 5) and f2 <= 1 and f1b <= 5 and init2 and d2 == 0 and ((pat != 0) + (paths != 0) + usec + (link != 0) <= 1)'
_PS = [('d1', 'int'), ('f1a', 'int'), ('f1b', 'int'), ('init1', 'bool'), ('rev', 'bool'), ('mp', 'int'), ('pkg', 'bool'), ('failkind', 'int'), ('failwhich', 'int')]
_CS = ', '.join(n for n, _ in _PS)
_BS = '0 <= d1 < %d and 0 <= f1a < %d and 0 <= f1b < %d and 0 <= mp < %d and 0 <= failkind < 4 and 0 <= failwhich <= 2' % (_ND, _NF, _NF, len(MODPAT))
_QS = _BS + ' and d1 <= 2 and f1a <= 3 and f1b <= 1 and not rev and (failkind == 0 or failwhich <= 1)'


def _v(**kw):
    v = dict(d1=0, d2=0, f_root=2, f1a=0, f1b=1, f2=1, init1=True, init2=True, rev=False, usec=False, pat=0, paths=0, link=0, prior=False)
    v.update(kw)
    return v


def _vs(**kw):
    v = dict(d1=0, f1a=0, f1b=1, init1=True, rev=False, mp=0, pkg=False, failkind=0, failwhich=0)
    v.update(kw)
    return v


SPEC = {
    'property': 'C14',
    'encoded': ['zope.testrunner.find.find_test_files', 'find.find_test_files_', 'find.walk_with_symlinks', 'find.test_dirs', 'find.strip_py_ext',
                'find.contains_init_py', 'find.find_suites (module naming, --module before import, StartUpFailure)', 'filter.build_filtering_func',
                'options.get_options (pattern options, ignore_dir)'],
    'files': ['src/zope/testrunner/find.py', 'src/zope/testrunner/options.py', 'src/zope/testrunner/filter.py'],
    'stubs': ['find.os -> in-memory tree (symbolic enumeration order; walk honours in-place pruning)', 'find.import_name -> recorder that can raise '
              '(ImportError / SyntaxError / SystemExit) for the n-th import', 'options from the real get_options on concrete argv; test_path / prefix injected'],
    'assumptions': ['the regex engine is trusted stdlib (patterns and names are concrete pool values)'],
    'outside': ['real file systems, symlink loops', 'names outside the pools', '--package (needs importable packages)', 'trees deeper than root/dir/dir'],
    'harnesses': [
        {'name': 'files', 'fn': 'files', 'params': _P, 'call': _C,
         'bounds': {'quick': _Q, 'thorough': _T},
         'slices': {'quick': ['d1 == %d and %s' % (d, r) for d in range(_ND) for r in ('rev', 'not rev')],
                    'thorough': ['d1 == %d and %s and paths == %d and pat == %d' % (d, r, p, q) for d in range(_ND) for r in ('rev', 'not rev') for p in range(len(PATHSETS))
                                 for q in range(len(PATTERNS)) if p == 0 or q == 0]},          # the thorough bound varies one of the two at a time
         'reach': 'files_reach', 'reach_bounds': {'quick': _B + ' and d1 == 0 and paths == 0 and pat == 0 and not usec and init1 and init2',
                                                  'thorough': _B + ' and d1 == 0 and paths == 0 and pat == 0 and not usec and init1 and init2'},
         'timeout': {'quick': 300, 'thorough': 1700},
         'fidelity': [_v(), _v(d1=2, pat=2, f1a=3, f1b=2, rev=True, paths=4), _v(usec=True, f1a=5, f1b=9, init1=False, f2=11), _v(d1=3, paths=2), _v(pat=1, f1b=8, paths=3), _v(d1=6, link=1), _v(d1=1, link=2), _v(d1=9, pat=3), _v(d1=1, pat=4), _v(d1=10), _v(d1=11, rev=True), _v(d1=1, prior=True), _v(d1=4, prior=True, rev=True)]},
        {'name': 'suites', 'fn': 'suites', 'params': _PS, 'call': _CS,
         'bounds': {'quick': _QS, 'thorough': _BS + ' and d1 <= 4 and f1a <= 5 and f1b <= 3'},
         'slices': {'quick': ['mp == %d and %s' % (m, p) for m in range(len(MODPAT)) for p in ('pkg', 'not pkg')],
                    'thorough': ['mp == %d and %s and d1 == %d' % (m, p, d) for m in range(len(MODPAT)) for p in ('pkg', 'not pkg') for d in range(5)]},
         'reach': 'suites_reach', 'reach_bounds': {'quick': _BS + ' and d1 == 0 and mp == 0 and failkind == 0 and init1',
                                                   'thorough': _BS + ' and d1 == 0 and mp == 0 and failkind == 0 and init1'},
         'timeout': {'quick': 300, 'thorough': 1700},
         'fidelity': [_vs(), _vs(mp=3, pkg=True), _vs(failkind=2, failwhich=1), _vs(mp=4, pkg=True, d1=1), _vs(mp=2, failkind=1)]},
    ],
}
