"""Runs the quick checks related to each behaviour-preserving change under /verif/benign against a scratch worktree with the
change applied (never /repo itself) and records whether any of them raises an alarm.  Expected: exit status 0, no VIOLATION.

usage: python -m vt.benignmatrix [--only B1,B3]"""
import os
import re
import subprocess
import sys
import time

VERIF = os.path.dirname(os.path.dirname(os.path.abspath(__file__)))
RELATED = {
    'B1': ['C01', 'C10'], 'B2': ['C05', 'C19'], 'B3': ['C06', 'C07'], 'B4': ['C14', 'C15'],
    'B5': ['C08', 'C11'], 'B6': ['C20', 'C09'], 'B7': ['C17', 'C13'], 'B8': ['C18', 'C04'],
}


def main():
    only = sys.argv[sys.argv.index('--only') + 1].split(',') if '--only' in sys.argv else None
    rows = []
    for b in sorted(RELATED):
        if only and b not in only:
            continue
        patch = os.path.join(VERIF, 'benign', b, 'patch.diff')
        for c in RELATED[b]:
            t0 = time.time()
            p = subprocess.run([os.path.join(VERIF, 'muttest'), patch, 'quick', c], capture_output=True, text=True, cwd=VERIF,
                               env=dict(os.environ, VERIF_FAILFAST=''))
            m = re.search(r'^%s rc=(\d+) (\d+) violation.*$' % c, p.stdout, re.M)
            rc, nv = (int(m.group(1)), int(m.group(2))) if m else (None, None)
            line = m.group(0)[:230] if m else p.stdout[-300:]
            extra = [ln[:300] for ln in p.stdout.splitlines() if ln.startswith(('VIOLATION', 'HARNESS-ERROR', 'INCONCLUSIVE'))][:4]
            rows.append((b, c, rc, nv, round(time.time() - t0), line, extra))
            print(b, c, 'rc=%s violations=%s' % (rc, nv), 'OK' if rc == 0 and not nv else 'ALARM/ERROR', line, flush=True)
            for e in extra:
                print('   ', e, flush=True)
    with open(os.path.join(VERIF, 'benign', 'RESULTS.md'), 'a') as f:
        f.write('\n## run of %s\n\n| change | check | exit | violations | wall s | summary |\n|---|---|---|---|---|---|\n' % time.strftime('%Y-%m-%d %H:%M'))
        for b, c, rc, nv, w, line, extra in rows:
            f.write('| %s | %s | %s | %s | %s | `%s` |\n' % (b, c, rc, nv, w, line.replace('|', '\\|')))


if __name__ == '__main__':
    main()
