"""C19 - threads left behind by a test are reported precisely.

The real run_tests() / TestResult.startTest / stopTest and the real
threadsupport.enumerate / ThreadProxy / DummyThread run over a *table model*
of sys._current_frames() and threading.enumerate().  Symbolic: thread
idents (small domain - only equality/hash of idents is ever used), whether
a thread is known to `threading`, names (ignored or not), and when each
thread dies."""
import unittest

from zope.testrunner import runner as R
from zope.testrunner import threadsupport as TS
from zope.testrunner.find import name_from_layer
from zope.testrunner.layer import UnitTests
from zope.testrunner.options import get_options

from vt.util import FakeGC, FakeTime, cb, ci, pick, untraced

R.time = FakeTime
R.gc = FakeGC
LAST = None
TABLE = []
REPORTED = []
UNIT = 'zope.testrunner.layer.UnitTests'


class FT:
    """A threading.Thread as far as the runner can tell."""

    def __init__(self, rec):
        self.rec = rec
        self.ident = rec['ident']
        self.name = rec['name']

    def is_alive(self):
        # a thread started through _thread that once called threading.current_thread() stays in
        # threading's table as a _DummyThread whose is_alive() is True for ever ('zombie')
        return self.rec['alive'] or self.rec.get('zombie', False)

    def __repr__(self):
        return '<T %s>' % self.name

    def __ch_deep_realize__(self, memo):
        return self


def fake_frames():
    return {r['ident']: None for r in TABLE if r['alive']}


class _FakeThreadingMod:
    Thread = FT

    @staticmethod
    def enumerate():
        return [r['obj'] for r in TABLE if r['known'] and (r['alive'] or r.get('zombie', False))]


TS.current_frames = fake_frames
TS.threading = _FakeThreadingMod


def _start(ident, name, known):
    for r in TABLE:
        if r['alive'] and r['ident'] == ident:
            raise _Invalid()          # the OS never hands out the ident of a live thread
    rec = {'ident': ident, 'name': name, 'known': known, 'alive': True}
    rec['obj'] = FT(rec)
    TABLE.append(rec)
    return rec


class _Invalid(Exception):
    pass


def _kill(rec):
    rec['alive'] = False
    if rec.get('lingers'):
        rec['zombie'] = True


class Out:
    def __getattr__(self, n):
        if n == 'test_threads':
            return lambda test, ths: REPORTED.append((str(test), sorted(t.name for t in ths)))
        return lambda *a, **k: None


class ProtoTest:
    """A test following the unittest result protocol (startTest, the body,
    addSuccess, stopTest) without unittest.TestCase's own machinery, which is
    not the subject here and dominates the interpretation cost."""

    skip = False

    def __init__(self, tname, script):
        self.tname, self.script = tname, script

    def countTestCases(self):
        return 1

    def __call__(self, result):
        result.startTest(self)
        try:
            self.script()
            if self.skip:          # unittest reports a skip raised in the body like this: addSkip, then stopTest
                result.addSkip(self, 'skipped after starting threads')
            else:
                result.addSuccess(self)
        finally:
            result.stopTest(self)

    def __str__(self):
        return self.tname

    def __ch_deep_realize__(self, memo):
        return self


def mk_test(tname, script, proto=True):
    if proto:
        return ProtoTest(tname, script)

    class T(unittest.TestCase):
        skip = False

        def runTest(self):
            script()
            if self.skip:
                self.skipTest('skipped after starting threads')

        def __str__(self):
            return tname

        def __ch_deep_realize__(self, memo):
            return self
    return T()


_OPT = []
NAMES = ['worker', 'ignored-x', 'x-ignored']


def threads(proto, id_a, id_b, id_c, a_exists, a_known, a_end, b_known, b_name, b_end, c_exists, c_known, c_name, c_leaks, lingers, skip0=False):
    global LAST
    del TABLE[:]
    del REPORTED[:]
    ia, ib, ic = ci(id_a, 1, 3), ci(id_b, 1, 3), ci(id_c, 1, 3)
    a_exists, a_known, b_known, c_exists, c_known, c_leaks, lingers = map(cb, (a_exists, a_known, b_known, c_exists, c_known, c_leaks, lingers))
    a_end, b_end = ci(a_end, 0, 2), ci(b_end, 0, 3)
    bn, cn = pick(NAMES, b_name), pick(NAMES, c_name)
    main = _start(1 << 40, 'Main', True)
    state = {}
    invalid = []
    try:
        if a_exists:
            state['a'] = _start(ia, 'A', a_known)    # leaked by an earlier test / the application
    except _Invalid:
        invalid.append(1)

    def t0():
        try:
            if a_exists and a_end == 0:
                state['a']['alive'] = False
            state['b'] = _start(ib, bn, b_known)
            state['b']['lingers'] = lingers and b_known
            if b_end == 0:
                _kill(state['b'])
        except _Invalid:
            invalid.append(1)

    def t1():
        try:
            if a_exists and a_end == 1:
                state['a']['alive'] = False
            if b_end == 2 and 'b' in state:
                _kill(state['b'])
            if c_exists:
                state['c'] = _start(ic, cn, c_known)
                if not c_leaks:
                    state['c']['alive'] = False
        except _Invalid:
            invalid.append(1)

    class Between(unittest.TestCase):
        """not a test of the world: releases B between t0 and t1"""

    with untraced():
        if not _OPT:
            _OPT.append(get_options(['t', '--ignore-new-thread', 'ignored'], []))
        opts = type(_OPT[0])()
        opts.__dict__.update(_OPT[0].__dict__)
    opts.resume_layer = None
    opts.resume_number = 0
    opts.output = Out()
    name_from_layer(UnitTests)
    tests = [mk_test('t0', t0, proto), mk_test('t1', t1, proto)]
    tests[0].skip = cb(skip0)

    class Suite(unittest.TestSuite):
        def __iter__(self):
            for i, t in enumerate(self._tests):
                if i == 1 and b_end == 1 and 'b' in state:
                    _kill(state['b'])     # released between the two tests
                yield t
    suite = Suite(tests)
    R.run_tests(opts, suite, UNIT, [], [], [], [])
    if invalid:
        LAST = 'invalid-world'
        return True

    def shown(known, nm, ident):
        return nm if known else 'Dummy-%d' % ident
    exp = []
    if b_end != 0 and not (b_known and bn.startswith('ignored')):
        exp.append(('t0', [shown(b_known, bn, ib)]))
    if c_exists and c_leaks and not (c_known and cn.startswith('ignored')):
        exp.append(('t1', [shown(c_known, cn, ic)]))
    LAST = (ia, ib, ic, a_exists, a_known, a_end, b_known, bn, b_end, c_exists, c_known, cn, c_leaks, list(REPORTED), lingers)
    return REPORTED == exp


def threads_reach(*a):
    threads(*a)
    return LAST != 'invalid-world' and len(LAST[13]) == 2


PATSETS = [['ignored'], ['(?i)(zeo|zrpc)', 'Pool-'], ['(zz)top', r'(\w+)-\1$'], ['ignored', 'Pool-']]
BNAMES = ['worker', 'pool-7', 'Pool-7', 'sync-sync', 'ignored-x', 'ZEO.client', 'zztop']
ANAMES = ['ignored-a', 'Pool-main', 'A', 'worker: job-1']
_OPTP = {}


def renames(ps, bn, an0, an1, b_leaks, a_known, adopt=False):
    """Several --ignore-new-thread patterns (each is a pattern of its own: inline flags and group numbers do not leak from
    one into another), and a thread that existed before the test and changes its name while the test runs: it is still
    a thread that existed before the test."""
    global LAST
    import re
    del TABLE[:]
    del REPORTED[:]
    pats = pick(PATSETS, ps)
    bname, a0, a1 = pick(BNAMES, bn), pick(ANAMES, an0), pick(ANAMES, an1)
    b_leaks, a_known, adopt = cb(b_leaks), cb(a_known), cb(adopt)
    _start(1 << 40, 'Main', True)
    a = _start(1, a0, a_known)
    state = {}

    def t0():
        a['obj'].name = a1          # e.g. a pool worker naming itself after the job it picks up
        if adopt:                   # a thread started through _thread becomes known to threading while it runs (it logs, or asks for current_thread())
            a['known'] = True
        state['b'] = _start(2, bname, True)
        if not b_leaks:
            _kill(state['b'])

    def t1():
        pass
    with untraced():
        key = tuple(pats)
        if key not in _OPTP:
            argv = ['t']
            for p_ in pats:
                argv += ['--ignore-new-thread', p_]
            _OPTP[key] = get_options(argv, [])
        opts = type(_OPTP[key])()
        opts.__dict__.update(_OPTP[key].__dict__)
    opts.resume_layer = None
    opts.resume_number = 0
    opts.output = Out()
    name_from_layer(UnitTests)
    R.run_tests(opts, unittest.TestSuite([mk_test('t0', t0, True), mk_test('t1', t1, True)]), UNIT, [], [], [], [])
    with untraced():
        exp = []
        if b_leaks and not any(re.match(p_, bname) for p_ in pats):
            exp.append(('t0', [bname]))
    LAST = ('renames', tuple(pats), bname, a0, a1, b_leaks, a_known, list(REPORTED), adopt)
    return REPORTED == exp


def renames_reach(*a):
    renames(*a)
    return len(LAST[7]) == 1 and LAST[3] != LAST[4]


_P = [('id_a', 'int'), ('id_b', 'int'), ('id_c', 'int'), ('a_exists', 'bool'), ('a_known', 'bool'), ('a_end', 'int'), ('b_known', 'bool'),
      ('b_name', 'int'), ('b_end', 'int'), ('c_exists', 'bool'), ('c_known', 'bool'), ('c_name', 'int'), ('c_leaks', 'bool'), ('lingers', 'bool'), ('skip0', 'bool')]
_C = 'True, ' + ', '.join(n for n, _ in _P)
_CTC = 'False, ' + ', '.join(n for n, _ in _P)
# idents take part in equality/hashing only: explore one representative per
# equality pattern (id_a = 1, id_b in {1,2}, id_c <= id_b + 1)
_B = ('id_a == 1 and 1 <= id_b <= 2 and 1 <= id_c <= id_b + 1 and 0 <= a_end <= 2 and 0 <= b_end <= 3 '
      'and 0 <= b_name <= 2 and 0 <= c_name <= 2 and (not lingers or (b_known and b_end != 3 and not (c_exists and id_c == id_b)))')


def _v(**kw):
    v = dict(id_a=1, id_b=2, id_c=3, a_exists=True, a_known=True, a_end=2, b_known=True, b_name=0, b_end=3, c_exists=True,
             c_known=True, c_name=0, c_leaks=True, lingers=False, skip0=False)
    v.update(kw)
    return v


SPEC = {
    'property': 'C19',
    'encoded': ['zope.testrunner.threadsupport.enumerate', 'threadsupport.ThreadProxy.__eq__', 'threadsupport.DummyThread',
                'zope.testrunner.runner.TestResult.startTest', 'TestResult.stopTest (thread difference + ignore patterns)',
                'zope.testrunner.runner.run_tests'],
    'files': ['src/zope/testrunner/threadsupport.py', 'src/zope/testrunner/runner.py', 'src/zope/testrunner/options.py'],
    'stubs': ['threadsupport.current_frames / threadsupport.threading -> table model (ident, name, known-to-threading, alive); '
              'idents are distinct among simultaneously alive threads and may be reused after death',
              'options.output -> recorder of test_threads()', 'runner.time -> constant clock'],
    'assumptions': ['thread idents only take part in equality and hashing, so one representative per equality pattern of the '
                    '3 idents is complete (symmetry reduction)',
                    'a dead thread is not in sys._current_frames(); threading.enumerate() may still list it as alive (a _DummyThread of a finished _thread thread)',
                    'threading.enumerate() returns the same object for the same thread every time'],
    'outside': ['real thread life-cycles and the OS ident allocator', 'more than 3 application threads / 2 tests'],
    'harnesses': [
        {'name': 'threads', 'fn': 'threads', 'params': _P, 'call': _C,
         'bounds': {'quick': _B + ' and (not skip0 or (not a_exists and not lingers and not c_exists)) and (not lingers or (not a_exists and b_end == 0)) and (b_name < 2 or (c_name == 0 and not a_exists)) and c_name <= 1', 'thorough': _B},
         'slices': {'quick': ['b_end == %d and id_b == %d and id_c == %d and %s' % (e, i, c, a) for e in range(4) for i in (1, 2) for c in range(1, i + 2) for a in ('a_exists', 'not a_exists')],
                    'thorough': ['b_end == %d and id_b == %d and id_c == %d and a_end == %d' % (e, i, c, a) for e in range(4) for i in (1, 2) for c in range(1, i + 2) for a in range(3)]},
         'reach': 'threads_reach', 'reach_bounds': {'quick': _B + ' and id_b == 2 and id_c == 3',
                                                    'thorough': _B + ' and id_b == 2 and id_c == 3'},
         'timeout': {'quick': 240, 'thorough': 800},
         'fidelity': [_v(), _v(b_known=False, b_end=1, id_c=2), _v(a_end=0, id_b=1, b_name=1), _v(b_end=0, lingers=True, c_name=2), _v(skip0=True, a_exists=False, c_exists=False)]},
        # the same world with real unittest.TestCase objects (TestCase.run drives the result)
        {'name': 'threads_tc', 'fn': 'threads', 'params': _P, 'call': _CTC,
         'bounds': {'quick': _B + ' and c_name == 0 and b_name == 0 and a_known and id_b == 1 and not lingers and (not skip0 or (not a_exists and not c_exists))',
                    'thorough': _B},
         'slices': {'quick': ['b_end == %d and id_c == %d' % (e, c) for e in range(4) for c in (1, 2)],
                    'thorough': ['b_end == %d and id_b == %d and id_c == %d and a_end == %d' % (e, i, c, a) for e in range(4) for i in (1, 2) for c in range(1, i + 2) for a in range(3)]},
         'timeout': {'quick': 240, 'thorough': 800},
         'fidelity': [_v(), _v(a_end=1, id_c=1, c_known=True)]},
        {'name': 'renames', 'fn': 'renames', 'params': [('ps', 'int'), ('bn', 'int'), ('an0', 'int'), ('an1', 'int'), ('b_leaks', 'bool'), ('a_known', 'bool'), ('adopt', 'bool')],
         'call': 'ps, bn, an0, an1, b_leaks, a_known, adopt',
         'bounds': {'quick': '(not adopt or (not a_known and ps == 0 and bn <= 1)) and 0 <= ps < %d and 0 <= bn < %d and 0 <= an0 < %d and 0 <= an1 < %d' % (len(PATSETS), len(BNAMES), len(ANAMES), len(ANAMES)),
                    'thorough': '(not adopt or not a_known) and 0 <= ps < %d and 0 <= bn < %d and 0 <= an0 < %d and 0 <= an1 < %d' % (len(PATSETS), len(BNAMES), len(ANAMES), len(ANAMES))},
         'slices': {'quick': ['ps == %d' % i for i in range(len(PATSETS))], 'thorough': ['ps == %d and an0 == %d' % (i, j) for i in range(len(PATSETS)) for j in range(len(ANAMES))]},
         'reach': 'renames_reach', 'reach_bounds': {'quick': 'ps == 0 and bn == 0 and an0 == 0 and an1 == 3', 'thorough': 'ps == 0 and bn == 0 and an0 == 0 and an1 == 3'},
         'timeout': {'quick': 240, 'thorough': 800},
         'fidelity': [dict(ps=1, bn=1, an0=1, an1=3, b_leaks=True, a_known=True, adopt=False), dict(ps=2, bn=3, an0=2, an1=2, b_leaks=True, a_known=False, adopt=False), dict(ps=0, bn=4, an0=0, an1=3, b_leaks=False, a_known=True, adopt=False), dict(ps=0, bn=0, an0=2, an1=2, b_leaks=True, a_known=False, adopt=True)]},
    ],
}
