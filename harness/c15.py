"""C15 - stale byte-code cleanup deletes only orphaned .pyc/.pyo files.

stale(): the real find.remove_stale_bytecode + walk_with_symlinks over an
in-memory tree (find.os replaced): a searched root with a nested directory, a
non-identifier directory, a __pycache__, an ignored directory, optionally one
of them being a symlink; three files whose names are symbolic (stem x
extension pools, incl. look-alikes) at symbolic places; symbolic enumeration
order; search-path sets (single, repeated, nested); -k / --usecompiled through
the real option post-processing.
Oracle: set of unlink()ed paths == orphans per the statement; each once; no
other mutating call."""
from zope.testrunner import find as F

from vt import fakeos as FO
from vt import runworld as RW
from vt.util import cb, ci, pick, untraced

LAST = None
STEMS = ['x', 'y', '', 'X']
EXTS = ['.pyc', '.py', '.pyo', '.pyc.bak', 'pyc', '.PYC', '', '.pyd']
PLACES = ['/r', '/r/sub', '/r/__pycache__', '/r/.git', '/r/my-dir', '/r/sub/deep']
PATHSETS = [['/r'], ['/r', '/r'], ['/r', '/r/sub'], ['/r/sub', '/r']]
FLAGS = [[], ['-k'], ['--usecompiled'], ['-k', '--usecompiled'], ['--ignore_dir', 'build'], ['--ignore_dir', 'my-dir']]
DEFAULT_IGNORE = {'.git', '.svn', 'CVS', '{arch}', '.arch-ids', '_darcs'}       # documented defaults of --ignore_dir


def name(si, ei):
    n = STEMS[si] + EXTS[ei]
    return n or 'noname'


def build(files, link, rev, pydir=False):
    t = FO.Tree()
    t.add_dir('/r')
    if pydir:            # a *directory* called y.py next to the files: it is no source file
        t.add_dir('/r/y.py')
        t.add_dir('/r/CVS')
        t.add_file('/r/CVS/old.pyc')
    for d in ('/r/sub', '/r/__pycache__', '/r/.git', '/r/my-dir', '/r/sub/deep'):
        t.add_dir(d, link=(link == 1 and d == '/r/__pycache__') or (link == 2 and d == '/r/.git') or (link == 3 and d == '/r/sub'))
    t.add_file('/r/__pycache__/x.cpython-312.pyc')
    t.add_file('/r/__pycache__/gone.pyc')
    t.add_file('/r/.git/hook.pyc')
    t.add_file('/r/sub/deep/orphan.pyo')
    t.add_file('/r/keep.py')
    t.add_file('/r/keep.pyc')
    for place, n in files:
        if n not in t.dirs[place][1]:
            t.add_file(place + '/' + n)
    if rev:
        for d, (subs, fl) in t.dirs.items():
            subs.reverse()
            fl.reverse()
    return t


class MutOS(FO.FakeOS):
    def unlink(self, p):
        self._mut('unlink', p)
        parent, n = FO.posixpath.split(p)
        if parent in self.tree.dirs and n in self.tree.dirs[parent][1]:
            self.tree.dirs[parent][1].remove(n)
        else:
            self._mut('unlink-of-missing-file', p)


def expected(tree, roots, ignore):
    """Orphans per the statement, computed from the tree description."""
    must, may = set(), set()
    seen = set()

    def visit(d):
        if d in seen:
            return
        seen.add(d)
        subs, files = tree.dirs[d]
        for f in files:
            if (f.endswith('.pyc') or f.endswith('.pyo')) and (f[:-1] not in files):
                (may if f in ('.pyc', '.pyo') else must).add(d + '/' + f)
        for s in subs:
            if s == '__pycache__' or s in ignore:
                continue
            visit(d + '/' + s)
    for r in roots:
        visit(r)
    return must, may


def stale(a_s, a_e, a_p, b_s, b_e, b_p, c_s, c_e, link, rev, flags, paths, pydir=False):
    global LAST
    a = (pick(PLACES, a_p), name(pick(range(4), a_s), pick(range(8), a_e)))
    b = (pick(PLACES, b_p), name(pick(range(4), b_s), pick(range(8), b_e)))
    c = ('/r', name(pick(range(4), c_s), pick(range(8), c_e)))
    link = ci(link, 0, 3)
    rev = cb(rev)
    pydir = cb(pydir)
    flags = pick(FLAGS, flags)
    paths = pick(PATHSETS, paths)
    with untraced():
        tree = build([a, b, c], link, rev, pydir)
        ref = build([a, b, c], link, rev, pydir)
        o = RW.options(flags)
        o.test_path = [(p, '') for p in paths]
        o.prefix = [(p + '/', '') for p in paths]
    fos = MutOS(tree)
    saved = F.os, F.find_suites
    F.os = fos
    at_discovery = []

    def fake_find_suites(options, accept=None):
        # discovery starts here: whatever is deleted must have been deleted by now
        at_discovery.append(len(fos.calls))
        return []
    F.find_suites = fake_find_suites
    try:
        # the real entry point: find_tests() cleans up, then discovers
        F.find_tests(o, None)
    finally:
        F.os, F.find_suites = saved
    with untraced():
        ignore = set(DEFAULT_IGNORE)
        if flags[:1] == ['--ignore_dir']:
            ignore.add(flags[1])
        must, may = expected(ref, paths, ignore)
        if flags and flags[0] != '--ignore_dir':
            must, may = set(), set()
        unl = [c_[1] for c_ in fos.calls if c_[0] == 'unlink']
        other = [c_ for c_ in fos.calls if c_[0] != 'unlink']
        why = None
        if at_discovery != [len(fos.calls)]:
            why = 'discovery started %r time(s) with %r of %d file-system changes done: the clean-up must come before discovery' % (len(at_discovery), at_discovery, len(fos.calls))
        elif other:
            why = 'mutating call other than unlink of an existing file: %r' % (other[:3],)
        elif len(unl) != len(set(unl)):
            why = 'file unlinked twice: %r' % (unl,)
        elif not (must <= set(unl) <= must | may):
            why = 'unlinked %r, orphans are %r (optional %r); flags %r' % (sorted(unl), sorted(must), sorted(may), flags)
    LAST = (a, b, c, link, rev, tuple(flags), tuple(paths), why, tuple(sorted(unl)), pydir)
    return why is None


def stale_reach(*a):
    stale(*a)
    return LAST[7] is None and len(LAST[8]) >= 3


_P = [('a_s', 'int'), ('a_e', 'int'), ('a_p', 'int'), ('b_s', 'int'), ('b_e', 'int'), ('b_p', 'int'), ('c_s', 'int'), ('c_e', 'int'), ('link', 'int'), ('rev', 'bool'),
      ('flags', 'int'), ('paths', 'int'), ('pydir', 'bool')]
_C = ', '.join(n for n, _ in _P)
_B = ('0 <= a_s < 4 and 0 <= a_e < 8 and 0 <= a_p < 6 and 0 <= b_s < 4 and 0 <= b_e < 8 and 0 <= b_p < 6 and 0 <= c_s < 4 and 0 <= c_e < 8 and 0 <= link <= 3 '
      'and 0 <= flags < 6 and 0 <= paths < 4')
# quick: A anywhere (all names), B beside it in /r or /r/sub with the compiled/source extensions, C fixed
_Q = _B + ' and (not pydir or (flags == 0 and paths == 0 and link == 0 and a_p == 0)) and b_s <= 1 and b_e <= 2 and b_p <= 1 and c_s == 0 and c_e == 1 and (flags == 0 or (a_s == 0 and b_s == 0)) and (paths == 0 or (a_s <= 1 and a_e <= 1 and b_e <= 1))  and (link == 0 or (a_e == 0 and b_e == 0 and a_s == 0))'
_T = (_B + ' and c_s == 0 and c_e <= 1 and b_s <= 1 and b_e <= 3 and b_p <= 2 and ((link != 0) + (flags != 0) + (paths != 0) + pydir <= 1) '
      'and ((link == 0 and flags == 0 and paths == 0 and not pydir) or a_s <= 1)')


def _v(**kw):
    v = dict(a_s=0, a_e=0, a_p=0, b_s=0, b_e=1, b_p=0, c_s=1, c_e=0, link=0, rev=False, flags=0, paths=0, pydir=False)
    v.update(kw)
    return v


SPEC = {
    'property': 'C15',
    'encoded': ['zope.testrunner.find.find_tests (clean-up before discovery)', 'zope.testrunner.find.remove_stale_bytecode', 'find.walk_with_symlinks', 'options.get_options (post-processing of -k / --usecompiled, ignore_dir)'],
    'files': ['src/zope/testrunner/find.py', 'src/zope/testrunner/options.py'],
    'stubs': ['find.os -> in-memory tree (walk honours in-place pruning, symbolic enumeration order, does not descend into symlinked directories; unlink removes '
              'the file from the tree; every mutating call recorded)', 'options through the real get_options on a concrete argv (evaluated untraced), test_path injected'],
    'assumptions': ['a file whose whole name is ".pyc" / ".pyo" (empty stem) may be deleted or kept - the statement does not settle whether a dot-file is a .pyc file'],
    'outside': ['real file systems', 'names outside the stem x extension pools', 'more than three symbolic files'],
    'harnesses': [
        {'name': 'stale', 'fn': 'stale', 'params': _P, 'call': _C,
         'bounds': {'quick': _Q, 'thorough': _T},
         'slices': {'quick': ['a_p == %d and %s' % (p, r) for p in range(6) for r in ('rev', 'not rev')],
                    'thorough': ['a_p == %d and b_p == %d and %s and flags == %d' % (p, q, r, f) for p in range(6) for q in range(3) for r in ('rev', 'not rev') for f in range(6)]},
         'reach': 'stale_reach', 'reach_bounds': {'quick': _B + ' and flags == 0 and paths == 0 and link == 0 and a_p == 0 and b_p == 1',
                                                  'thorough': _B + ' and flags == 0 and paths == 0 and link == 0 and a_p == 0 and b_p == 1'},
         'timeout': {'quick': 300, 'thorough': 1700},
         'fidelity': [_v(), _v(a_e=2, b_s=0, b_e=0, b_p=1, rev=True, paths=2), _v(link=1, a_p=2), _v(flags=2, a_e=0, b_e=0), _v(a_s=2, a_e=0, link=3, paths=3), _v(pydir=True, b_e=3), _v(flags=4, a_p=3), _v(flags=5, a_p=4)]},
    ],
}
