"""C05 - per-test layer hooks bracket every test: bases first, mirrored,
balanced.  Real run_tests() + TestResult + the interpreter's own
unittest.TestCase.run; symbolic outcome kind per test, layer shape, hook
presence, --repeat."""
import unittest

from zope.testrunner import runner as R
from zope.testrunner.find import name_from_layer
from zope.testrunner.options import get_options

from vt import world as W
from zope.testrunner.interfaces import EndRun

from vt.util import FakeGC, FakeTime, cb, ci, install_fake_pdb, pick, untraced

R.time = FakeTime
R.gc = FakeGC
# traceback text is not the subject: skip the stdlib's (traced, slow) formatting
R.TestResult._exc_info_to_string = lambda self, err, test: 'traceback'
install_fake_pdb()
LAST = None
_OPT = []
HOOKS = ['ST', 'S', 'T', '']      # per-test hook presence patterns


class Out:
    """Recording output: start_test / stop_test delimit each test's bracket."""

    def start_test(self, test, *a):
        W.ev('start', str(test))

    def stop_test(self, test, *a):
        W.ev('stop', str(test))

    def __getattr__(self, n):
        return lambda *a, **k: None


def _options():
    with untraced():
        if not _OPT:
            _OPT.append(get_options(['t'], []))
        o = type(_OPT[0])()
        o.__dict__.update(_OPT[0].__dict__)
    o.resume_layer = None
    o.resume_number = 0
    o.output = Out()
    return o


def build_layers(shape, h0, h1, instance=False):
    """-> (test layer, {name: (bases names, hooks)}) ; every layer has S and T
    hooks except the two designated ones whose presence pattern is symbolic."""
    hk0, hk1 = pick(HOOKS, h0), pick(HOOKS, h1)
    if shape == 0:
        A = W.mk_layer('A', (), hooks=hk0, instance=instance)
        info = {'A': ((), hk0)}
        return A, info
    if shape == 1:
        A = W.mk_layer('A', (), hooks=hk0, instance=instance)
        B = W.mk_layer('B', (A,), hooks=hk1, instance=instance)
        C = W.mk_layer('C', (B,), hooks='ST', instance=instance)
        return C, {'A': ((), hk0), 'B': (('A',), hk1), 'C': (('B',), 'ST')}
    if shape == 3:
        # diamond whose apex lists an unrelated base last, that base's name sorting before the shared base
        S = W.mk_layer('S', (), hooks=hk0, instance=instance)
        L = W.mk_layer('L', (S,), hooks=hk1, instance=instance)
        Rr = W.mk_layer('R', (S,), hooks='ST', instance=instance)
        A = W.mk_layer('A', (), hooks='ST', instance=instance)
        T = W.mk_layer('T', (L, Rr, A), hooks='ST', instance=instance)
        return T, {'S': ((), hk0), 'L': (('S',), hk1), 'R': (('S',), 'ST'), 'A': ((), 'ST'), 'T': (('L', 'R', 'A'), 'ST')}
    A = W.mk_layer('A', (), hooks=hk0, instance=instance)
    B = W.mk_layer('B', (A,), hooks=hk1, instance=instance)
    C = W.mk_layer('C', (A,), hooks='ST', instance=instance)
    D = W.mk_layer('D', (B, C), hooks='ST', instance=instance)
    return D, {'A': ((), hk0), 'B': (('A',), hk1), 'C': (('A',), 'ST'), 'D': (('B', 'C'), 'ST')}


def ancestors(info, n):
    out = set()
    for b in info[n][0]:
        out.add(b)
        out |= ancestors(info, b)
    return out


def has_hook(info, n, h, instance):
    """A class layer that does not define a hook inherits it from its bases (Python inheritance; instance layers do not)."""
    if h in info[n][1]:
        return True
    return (not instance) and any(has_hook(info, b, h, instance) for b in info[n][0])


def check_brackets(trace, info, tests, kinds, repeat, instance=False):
    """The oracle: written from the statement only."""
    S = {n for n in info if has_hook(info, n, 'S', instance)}
    T = {n for n in info if has_hook(info, n, 'T', instance)}
    brackets = []
    cur = []
    for e in trace:
        cur.append(e[1:])
        if e[1] == 'stop':
            brackets.append(cur)
            cur = []
    if cur:
        return 'events after the last test: %r' % (cur,)
    expected = [(t, k) for _ in range(repeat) for t, k in zip(tests, kinds)]
    if len(brackets) != len(expected):
        return 'expected %d test brackets, saw %d' % (len(expected), len(brackets))
    for br, (t, k) in zip(brackets, expected):
        phase = 0        # 0 tsu*, 1 body, 2 ttd*
        tsu, ttd, body = [], [], []
        for e in br[:-1]:
            if e[0] == 'tsu':
                if phase != 0:
                    return 'testSetUp after the test started: %r' % (br,)
                tsu.append(e[1])
            elif e[0] == 'ttd':
                phase = 2
                ttd.append(e[1])
            else:
                if phase == 2:
                    return 'test activity after testTearDown: %r' % (br,)
                phase = 1
                body.append(e)
        if br[-1] != ('stop', t) or any(e[1] != t for e in body):
            return 'bracket of %s mixes tests: %r' % (t, br)
        started = any(e[0] in ('setUp', 'test') for e in body)
        if k == W.SKIP_DECO and not started and not tsu and not ttd:
            continue          # a test that never started may see no hooks at all
        if sorted(tsu) != sorted(S):
            return 'testSetUp called on %r, expected once on each of %r (test %s kind %s)' % (tsu, sorted(S), t, W.KIND_NAMES[k])
        if sorted(ttd) != sorted(T):
            return 'testTearDown called on %r, expected once on each of %r (test %s kind %s)' % (ttd, sorted(T), t, W.KIND_NAMES[k])
        for i, n in enumerate(tsu):
            if ancestors(info, n) & set(tsu[i + 1:]):
                return 'testSetUp of %s before its base: %r' % (n, tsu)
        for i, n in enumerate(ttd):
            if ancestors(info, n) & set(ttd[:i]):
                return 'testTearDown of %s after its base: %r' % (n, ttd)
        both = S & T
        if [n for n in ttd if n in both] != [n for n in tsu if n in both][::-1]:
            return 'testTearDown order %r is not the reverse of testSetUp order %r' % (ttd, tsu)
        # hooks surround the test's own setUp / tearDown: guaranteed by the phase check
    return None


def hooks(shape, h0, h1, n, k0, k1, k2, rep2, instance, pm=False):
    global LAST
    W.reset()
    shape = ci(shape, 0, 3)
    pm = cb(pm)
    n = ci(n, 1, 3)
    instance = cb(instance)
    repeat = 2 if rep2 else 1
    h0, h1 = ci(h0, 0, 3), ci(h1, 0, 3)
    kinds = [ci(k, 0, 14) for k in (k0, k1, k2)[:n]]
    names = ['t0', 't1', 't2'][:n]      # literal names: '%'-formatting under CrossHair yields lazily symbolic strings
    with untraced():          # world construction from already-decided values
        layer, info = build_layers(shape, h0, h1, instance)
        tests = [W.mk_test(nm, k) for nm, k in zip(names, kinds)]
        suite = unittest.TestSuite(tests)
    o = _options()
    o.repeat = repeat
    o.post_mortem = pm
    lname = name_from_layer(layer)
    ended = False
    try:
        R.run_tests(o, suite, lname, [], [], [], [])
    except EndRun:          # -D: the (stubbed) debugger was left after the first failing test
        ended = True
    with untraced():          # the oracle reads concrete events only
        trace = [e[:3] for e in W.TRACE if e[1] in ('tsu', 'ttd', 'start', 'stop', 'setUp', 'test', 'tearDown', 'cleanup')]
        exp_names, exp_kinds, exp_rep = names, kinds, repeat
        if pm:
            bad = [i for i, k in enumerate(kinds) if W.is_bad(k)]
            if bad:          # the run ends with the first failing test, whose bracket must still be complete
                exp_names, exp_kinds, exp_rep = names[:bad[0] + 1], kinds[:bad[0] + 1], 1
            if bool(bad) != ended:
                trace.append((0, 'endrun-mismatch', 'x'))
        why = check_brackets(trace, info, exp_names, exp_kinds, exp_rep, instance)
    LAST = (shape, tuple(sorted((k, v[1]) for k, v in info.items())), tuple(kinds), repeat, instance, why,
            tuple(e[1:] for e in trace), pm)
    return why is None


def hooks_reach(*a):
    hooks(*a)
    return LAST[5] is None and any(e[0] == 'ttd' for e in LAST[6]) and W.ERR_TD in LAST[2]


def declared(falsy, where, outer, k, inst=True):
    """The layer a test declares is the one whose stack brackets it, whatever the layer object looks like: the real
    find.tests_from_suite decides the layer name (test attribute / enclosing suite attribute), the real run_tests runs it.
    falsy: the declared layer object is an instance whose len() is 0.  where: 0 on the test, 1 on the enclosing suite.
    outer: an outer suite declares another layer (which must not win)."""
    global LAST
    from zope.testrunner import find as F
    W.reset()
    falsy, outer, inst = cb(falsy), cb(outer), cb(inst)
    where = ci(where, 0, 1)
    k = ci(k, 0, 14)
    with untraced():
        A = W.mk_layer('A', (), hooks='ST', instance=inst)
        B = W.mk_layer('B', (A,), hooks='ST', instance=inst, falsy=falsy and inst)
        X = W.mk_layer('X', (), hooks='ST', instance=inst)
        info = {'A': ((), 'ST'), 'B': (('A',), 'ST')}
        t = W.mk_test('t0', k)
        inner = unittest.TestSuite([t])
        if where == 0:
            type(t).layer = B
        else:
            inner.layer = B
        top = unittest.TestSuite([inner])
        if outer:
            top.layer = X
    o = _options()
    o.repeat = 1
    o.post_mortem = False
    F._layer_name_cache.clear()
    found = list(F.tests_from_suite(top, o))
    by = {}
    for test, lname in found:
        by.setdefault(lname, []).append(test)
    name_from_layer(A)
    for lname in sorted(by):
        R.run_tests(o, unittest.TestSuite(by[lname]), lname, [], [], [], [])
    with untraced():
        trace = [e[:3] for e in W.TRACE if e[1] in ('tsu', 'ttd', 'start', 'stop', 'setUp', 'test', 'tearDown', 'cleanup')]
        why = None
        if sorted(by) != ['w.B']:
            why = 'test declared for layer w.B was filed under %r' % (sorted(by),)
        else:
            why = check_brackets(trace, info, ['t0'], [k], 1, inst)
    LAST = ('declared', falsy, where, outer, W.KIND_NAMES[k], why, tuple(e[1:] for e in trace), inst)
    return why is None


def declared_reach(*a):
    declared(*a)
    return LAST[5] is None and LAST[1] and any(e[0] == 'ttd' for e in LAST[6])


C_VARIANTS = ['C alone', 'C(B(A))', 'C(A)', 'instance C(A)', 'C(B, A)']


def _build_c(variant):
    inst = variant == 3
    A = W.mk_layer('A', (), hooks='ST', instance=inst)
    if variant == 0:
        C = W.mk_layer('C', (), hooks='ST')
        return C, {'C': ((), 'ST')}, inst
    if variant == 1:
        B = W.mk_layer('B', (A,), hooks='ST')
        C = W.mk_layer('C', (B,), hooks='ST')
        return C, {'A': ((), 'ST'), 'B': (('A',), 'ST'), 'C': (('B',), 'ST')}, inst
    if variant == 4:
        B = W.mk_layer('B', (), hooks='ST')
        C = W.mk_layer('C', (B, A), hooks='ST')
        return C, {'A': ((), 'ST'), 'B': ((), 'ST'), 'C': (('B', 'A'), 'ST')}, inst
    C = W.mk_layer('C', (A,), hooks='ST', instance=inst)
    return C, {'A': ((), 'ST'), 'C': (('A',), 'ST')}, inst


def twice(first, second, k, rep2):
    """Two runs in one process in which the same layer name denotes different layer objects with different bases (layers
    made by a factory, a re-imported module): the second run's tests are bracketed by the second run's stack."""
    global LAST
    from zope.testrunner import find as F
    first, second = ci(first, 0, 4), ci(second, 0, 4)
    k = ci(k, 0, 14)
    repeat = 2 if rep2 else 1
    why = None
    for variant in (first, second):
        W.reset()
        F._layer_name_cache.clear()          # what Runner.run() does at the start of every run
        with untraced():
            layer, info, inst = _build_c(variant)
            t = W.mk_test('t0', k)
        o = _options()
        o.repeat = repeat
        o.post_mortem = False
        lname = name_from_layer(layer)
        R.run_tests(o, unittest.TestSuite([t]), lname, [], [], [], [])
        with untraced():
            trace = [e[:3] for e in W.TRACE if e[1] in ('tsu', 'ttd', 'start', 'stop', 'setUp', 'test', 'tearDown', 'cleanup')]
            why = check_brackets(trace, info, ['t0'], [k], repeat, inst)
        if why:
            why = 'run with %s (after %s): %s' % (C_VARIANTS[variant], C_VARIANTS[first] if variant is second else 'nothing', why)
            break
    LAST = ('twice', C_VARIANTS[first], C_VARIANTS[second], W.KIND_NAMES[k], repeat, why)
    return why is None


def twice_reach(*a):
    twice(*a)
    return LAST[5] is None and LAST[1] != LAST[2]


_P = [('shape', 'int'), ('h0', 'int'), ('h1', 'int'), ('n', 'int'), ('k0', 'int'), ('k1', 'int'), ('k2', 'int'),
      ('rep2', 'bool'), ('instance', 'bool'), ('pm', 'bool')]
_C = ', '.join(n for n, _ in _P)
_K = '0 <= k0 <= 14 and 0 <= k1 <= 14 and 0 <= k2 <= 14'
# -D (post-mortem, debugger stubbed): kinds whose debug() run is well defined
_PMK = ' and '.join('(k%d <= 3 or k%d == 12 or k%d == 13)' % (i, i, i) for i in range(3))
_B = '0 <= shape <= 3 and 0 <= h0 <= 3 and 0 <= h1 <= 3 and 1 <= n <= 3 and (not pm or (not rep2 and %s)) and ' % _PMK + _K


def _v(**kw):
    v = dict(shape=1, h0=0, h1=0, n=2, k0=0, k1=1, k2=0, rep2=False, instance=False, pm=False)
    v.update(kw)
    return v


SPEC = {
    'property': 'C05',
    'encoded': ['zope.testrunner.find.tests_from_suite (declared(): which layer a test is filed under)', 'zope.testrunner.runner.run_tests', 'runner.TestResult.__init__', 'TestResult.testSetUp',
                'TestResult.testTearDown', 'TestResult.startTest', 'TestResult.stopTest', 'TestResult.addSkip',
                'TestResult.add*', 'runner.gather_layers', 'runner.order_by_bases', 'runner.layer_from_name',
                'unittest.TestCase.run (interpreter stdlib, traced)'],
    'files': ['src/zope/testrunner/runner.py', 'src/zope/testrunner/find.py'],
    'stubs': ['unittest.TestResult._exc_info_to_string -> constant (traceback text is not the subject)', 'runner.time -> constant clock', 'runner.gc -> no-op collector', 'options.output -> recorder (start_test/stop_test delimit brackets)'],
    'assumptions': ['a decorator-skipped test that never starts may see either no per-test hooks at all or a complete balanced pair'],
    'outside': ['more than 3 consecutive tests; layer graphs other than single / chain of 3 / diamond / diamond with an extra unrelated base',
                '-D with outcome kinds other than pass / fail / error / skip / setUp error / tearDown error (TestCase.debug() semantics)',
                'unittest.TestCase.run of Python versions other than the one in /venv (3.12.1)'],
    'harnesses': [
        {'name': 'hooks', 'fn': 'hooks', 'params': _P, 'call': _C,
         # quick: all 15x15 kind pairs x 3 shapes x repeat, hook presence symbolic on the base layer only
         'bounds': {'quick': _B + ' and n <= 2 and h1 == 0 and not instance and k2 == 0 and (shape != 3 or (h0 == 0 and k1 <= 4)) and (not pm or (shape == 1 and h0 == 0))',
                    'thorough': _B + ' and (n <= 2 or (h0 == 0 and h1 == 0 and not instance and not rep2))'},
         'slices': {'quick': ['shape == %d and k0 == %d' % (s, k) for s in range(4) for k in range(15)],
                    'thorough': ['shape == %d and k0 == %d and n == %d' % (s, k, n) for s in range(4) for k in range(15) for n in (1, 2, 3)]},
         'reach': 'hooks_reach', 'reach_bounds': {'quick': _B + ' and n == 1 and shape == 1 and h0 == 0 and h1 == 0 and not instance and not rep2',
                                                  'thorough': _B + ' and n == 1 and shape == 1 and h0 == 0 and h1 == 0 and not instance and not rep2'},
         'timeout': {'quick': 240, 'thorough': 850},
         'fidelity': [_v(), _v(shape=2, k0=4, k1=7, h0=1), _v(shape=3, k0=1, k1=0), _v(pm=True, k0=0, k1=2, n=3, k2=0), _v(shape=0, n=3, k0=6, k1=4, k2=9, rep2=True, instance=True)]},
        {'name': 'declared', 'fn': 'declared', 'params': [('falsy', 'bool'), ('where', 'int'), ('outer', 'bool'), ('k', 'int'), ('inst', 'bool')], 'call': 'falsy, where, outer, k, inst',
         'bounds': {'quick': '0 <= where <= 1 and 0 <= k <= 14 and (k <= 4 or (falsy and where == 0)) and (inst or not falsy)', 'thorough': '0 <= where <= 1 and 0 <= k <= 14 and (inst or not falsy)'},
         'slices': {'quick': ['where == 0', 'where == 1'], 'thorough': ['where == %d and %s' % (w_, f) for w_ in (0, 1) for f in ('falsy', 'not falsy')]},
         'reach': 'declared_reach', 'reach_bounds': {'quick': 'falsy and where == 0 and not outer and k == 1 and inst', 'thorough': 'falsy and where == 0 and not outer and k == 1 and inst'},
         'timeout': {'quick': 240, 'thorough': 850},
         'fidelity': [dict(falsy=True, where=0, outer=True, k=1, inst=True), dict(falsy=False, where=1, outer=False, k=4, inst=False), dict(falsy=True, where=1, outer=True, k=6, inst=True)]},
        {'name': 'twice', 'fn': 'twice', 'params': [('first', 'int'), ('second', 'int'), ('k', 'int'), ('rep2', 'bool')], 'call': 'first, second, k, rep2',
         'bounds': {'quick': '0 <= first <= 4 and 0 <= second <= 4 and 0 <= k <= 14 and k <= 1 and not rep2', 'thorough': '0 <= first <= 4 and 0 <= second <= 4 and 0 <= k <= 14'},
         'slices': {'quick': ['first == %d' % f for f in range(5)], 'thorough': ['first == %d and second == %d' % (f, g) for f in range(5) for g in range(5)]},
         'reach': 'twice_reach', 'reach_bounds': {'quick': 'first == 1 and second == 2 and k == 0 and not rep2', 'thorough': 'first == 1 and second == 2 and k == 0 and not rep2'},
         'timeout': {'quick': 240, 'thorough': 850},
         'fidelity': [dict(first=1, second=2, k=1, rep2=False), dict(first=3, second=4, k=6, rep2=True), dict(first=0, second=0, k=0, rep2=False)]},
    ],
}
