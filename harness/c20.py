"""C20 - DiGraph.sccs yields each strongly connected component exactly once,
the components partition the nodes, default mode yields exactly the cyclic
ones.  The whole adjacency matrix (self loops included) is symbolic."""
from zope.testrunner.digraph import DiGraph

LAST = None


class Node:
    __slots__ = ('i',)

    def __init__(self, i):
        self.i = i

    def __repr__(self):
        return 'N%d' % self.i


def _reach(adj, n):
    r = [[adj[i][j] for j in range(n)] for i in range(n)]
    for k in range(n):
        for i in range(n):
            for j in range(n):
                if r[i][k] and r[k][j]:
                    r[i][j] = True
    return r


def scc(n, trivial, objs, rev, unknown_edge, skip_sinks, *bits):
    """Build the graph through the public API of the real DiGraph, enumerate
    its components with the real sccs(), compare with the reachability
    closure computed here."""
    global LAST
    LAST = None
    # concretise the matrix by branching (each `if` is a solver decision)
    adj = [[(True if bits[i * n + j] else False) for j in range(n)] for i in range(n)]
    trivial = True if trivial else False
    objs = True if objs else False
    if objs:
        nodes = [Node(i) for i in range(n)]
        g = DiGraph(reversed(nodes) if rev else nodes)           # make_hashable=id
        stranger = Node(99)
    else:
        nodes = list(range(n))
        g = DiGraph(reversed(nodes) if rev else nodes, make_hashable=None)
        stranger = 99
    order = list(range(n))
    if rev:
        order.reverse()
    for i in order:
        nb = [nodes[j] for j in range(n) if adj[i][j]]
        if unknown_edge and i == 0:
            nb.append(stranger)
        if skip_sinks and not nb:
            continue          # node never passed to add_neighbors
        # the documented argument is an iterator: in reversed insertion order it is handed over as a one-shot iterator; without an
        # unknown edge the strict mode (ignore_unknown=False) must accept the very same edges
        if unknown_edge:
            g.add_neighbors(nodes[i], iter(nb) if rev else nb)
        else:
            g.add_neighbors(nodes[i], iter(nb) if rev else nb, ignore_unknown=bool(objs))
    comps = []
    for c in g.sccs(trivial=trivial):
        comps.append(sorted(nodes.index(x) for x in c))
    r = _reach(adj, n)
    exp = []
    seen = set()
    for i in range(n):
        if i in seen:
            continue
        comp = [i] + [j for j in range(n) if j != i and r[i][j] and r[j][i]]
        seen.update(comp)
        if trivial or len(comp) > 1 or adj[i][i]:
            exp.append(sorted(comp))
    LAST = (n, trivial, objs, tuple(tuple(int(x) for x in row) for row in adj), sorted(comps))
    flat = [x for c in comps for x in c]
    once = len(flat) == len(set(flat))
    return sorted(comps) == sorted(exp) and once


KEYSETS = [(0, 1, 2, 8), (8, 1, 2, 0), (0, 9, 2, 8), (16, 8, 0, 24), (0, 1, 2, 3), (3, 10, 1, 8)]


def scck(trivial, ks, rev, nrev, *bits):
    """4 nodes, no self loops; the nodes are objects hashed through a make_hashable function that maps them to small ints which
    *collide* in CPython's set tables (keys equal modulo 8): together with the insertion order this varies the iteration order of
    the node set and of the neighbour sets - the order in which Tarjan's DFS meets the nodes - independently of the graph."""
    global LAST
    LAST = None
    n = 4
    keys = KEYSETS[[k for k in range(len(KEYSETS)) if ks == k][0]]
    trivial = True if trivial else False
    rev = True if rev else False
    nrev = True if nrev else False
    adj = [[False] * n for _ in range(n)]
    k = 0
    for i in range(n):
        for j in range(n):
            if i != j:
                adj[i][j] = True if bits[k] else False
                k += 1
    nodes = [Node(i) for i in range(n)]
    order = list(range(n))
    if rev:
        order.reverse()
    g = DiGraph([nodes[i] for i in order], make_hashable=lambda nd: keys[nd.i])
    for i in order:
        g.add_neighbors(nodes[i], [nodes[j] for j in (range(n) if not nrev else reversed(range(n))) if adj[i][j]])
    comps = [sorted(x.i for x in c) for c in g.sccs(trivial=trivial)]
    r = _reach(adj, n)
    exp = []
    seen = set()
    for i in range(n):
        if i in seen:
            continue
        comp = [i] + [j for j in range(n) if j != i and r[i][j] and r[j][i]]
        seen.update(comp)
        if trivial or len(comp) > 1:
            exp.append(sorted(comp))
    LAST = (n, trivial, keys, tuple(tuple(int(x) for x in row) for row in adj), sorted(comps))
    flat = [x for c in comps for x in c]
    return sorted(comps) == sorted(exp) and len(flat) == len(set(flat))


def scc_reach(n, *a):
    scc(n, *a)
    return LAST is not None and any(len(c) > 1 for c in LAST[4])


# pinned inputs of the repository's own test_digraph, pushed through the same world
def repo_graphs():
    """(n, edges) taken from src/zope/testrunner/tests/test_digraph.py."""
    return [
        (3, [(0, 1), (1, 2)]),                      # test_scc_linear (shifted to 0-base)
        (1, [(0, 0)]),                              # test_trivial_cycle
        (4, [(0, 1), (1, 2), (2, 0), (2, 3)]),      # complex-like
        (4, [(0, 1), (2, 3)]),                      # forest
    ]


def _mk(n):
    params = [('trivial', 'bool'), ('objs', 'bool'), ('rev', 'bool'),
              ('unknown_edge', 'bool'), ('skip_sinks', 'bool')]
    params += [('a%d' % k, 'bool') for k in range(n * n)]
    call = '%d, trivial, objs, rev, unknown_edge, skip_sinks, %s' % (
        n, ', '.join('a%d' % k for k in range(n * n)))
    return params, call


def _vec(n, edges, **kw):
    v = dict(trivial=False, objs=False, rev=False, unknown_edge=False, skip_sinks=False)
    v.update(kw)
    for k in range(n * n):
        v['a%d' % k] = False
    for i, j in edges:
        v['a%d' % (i * n + j)] = True
    return v


def _flag_slices(names):
    out = ['']
    for nm in names:
        out = [(s + ' and ' if s else '') + ('%s' % nm if b else 'not %s' % nm)
               for s in out for b in (False, True)]
    return out


_PK = [('trivial', 'bool'), ('ks', 'int'), ('rev', 'bool'), ('nrev', 'bool')] + [('b%d' % k, 'bool') for k in range(12)]
_CK = ', '.join(n for n, _ in _PK)
_SUMK = ' + '.join('b%d' % k for k in range(12))


def _vk(edges, **kw):
    v = dict(trivial=True, ks=0, rev=True, nrev=False)
    idx = {}
    k = 0
    for i in range(4):
        for j in range(4):
            if i != j:
                idx[(i, j)] = k
                k += 1
    for k in range(12):
        v['b%d' % k] = False
    for e in edges:
        v['b%d' % idx[e]] = True
    v.update(kw)
    return v


p1, c1 = _mk(1)
p2, c2 = _mk(2)
p3, c3 = _mk(3)
p4, c4 = _mk(4)

SPEC = {
    'property': 'C20',
    'encoded': ['zope.testrunner.digraph.DiGraph.__init__', 'DiGraph.add_nodes',
                'DiGraph.add_neighbors', 'DiGraph.sccs', 'digraph._TarjanState'],
    'files': ['src/zope/testrunner/digraph.py'],
    'stubs': [],
    'assumptions': ['the oracle is the reachability closure (Floyd-Warshall) computed in the harness'],
    'outside': ['graphs with more than 4 nodes', 'make_hashable functions other than id / None / a small-int key map',
                'iteration orders of CPython sets other than those induced by the listed colliding key sets and the two insertion orders'],
    'harnesses': [
        {'name': 'scc1', 'fn': 'scc', 'params': p1, 'call': c1,
         'bounds': {'quick': 'True', 'thorough': 'True'},
         'fidelity': [_vec(1, [(0, 0)])]},
        {'name': 'scc2', 'fn': 'scc', 'params': p2, 'call': c2,
         'bounds': {'quick': 'True', 'thorough': 'True'},
         'slices': {'quick': _flag_slices(['trivial', 'objs']),
                    'thorough': _flag_slices(['trivial', 'objs'])},
         'reach': 'scc_reach',
         'fidelity': [_vec(2, [(0, 1), (1, 0)], objs=True)]},
        {'name': 'scc3', 'fn': 'scc', 'params': p3, 'call': c3,
         # quick: rev fixed to False (insertion order is explored in scc2 and in thorough)
         'bounds': {'quick': 'not rev and not unknown_edge', 'thorough': 'True'},
         'slices': {'quick': [x + ' and not unknown_edge' for x in _flag_slices(['trivial', 'objs', 'skip_sinks'])],
                    'thorough': _flag_slices(['trivial', 'objs', 'unknown_edge', 'skip_sinks', 'rev'])},
         'reach': 'scc_reach',
         'reach_bounds': {'quick': 'not rev and not objs and not trivial', 'thorough': 'not rev and not objs and not trivial'},
         'timeout': {'quick': 240, 'thorough': 600},
         'fidelity': [_vec(3, [(0, 1), (1, 2)]), _vec(3, [(0, 1), (1, 2), (2, 0)], objs=True, trivial=True),
                      _vec(3, [(0, 1)], skip_sinks=True)]},
        {'name': 'scc4', 'fn': 'scc', 'params': p4, 'call': c4,
         # thorough only: all 2^16 graphs on 4 nodes x trivial x node kind, sliced by the first row + flags
         'bounds': {'thorough': 'not rev and not unknown_edge and not skip_sinks and trivial and not objs'},
         'slices': {'thorough': _flag_slices(['a0', 'a1', 'a2', 'a3'])},
         'timeout': {'thorough': 1500},
         'fidelity': [_vec(4, e) for n, e in repo_graphs() if n == 4]},
        {'name': 'scc4keyed', 'fn': 'scck', 'params': _PK, 'call': _CK,
         # quick: every 4-node graph with exactly 5 edges (the smallest graphs with a cycle through three nodes plus a detour)
         'bounds': {'quick': 'ks == 3 and trivial and %s == 5' % _SUMK, 'thorough': '0 <= ks < 4 and trivial and 5 <= %s <= 6' % _SUMK},
         'slices': {'quick': ['%s and %s and %s' % (r, b, c) for r in ('rev', 'not rev') for b in ('nrev', 'not nrev') for c in _flag_slices(['b0', 'b1'])],
                    'thorough': ['ks == %d and %s and %s and %s' % (k, r, t, b) for k in range(4) for r in ('rev', 'not rev') for t in ('nrev', 'not nrev')
                                 for b in _flag_slices(['b0', 'b1'])]},
         'timeout': {'quick': 300, 'thorough': 1700},
         'fidelity': [_vk([(0, 1), (1, 2), (2, 0), (2, 3), (3, 1)]), _vk([(0, 1), (1, 0), (2, 3), (3, 2), (2, 1)], ks=3, rev=False, trivial=False)]},
    ],
}
