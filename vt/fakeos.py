"""In-memory file system standing in for the `os` module global of
zope.testrunner.find: walk() honours in-place pruning of `dirs`, lists
entries in a caller-chosen enumeration order, never follows symlinked
directories (like os.walk(followlinks=False)); every mutating call is
recorded."""
import posixpath


class Tree:
    """dirs: dict path -> (subdir names, file names) in *enumeration* order.
    links: set of directory paths that are symlinks."""

    def __init__(self):
        self.dirs = {}
        self.links = set()

    def add_dir(self, path, link=False):
        self.dirs.setdefault(path, ([], []))
        parent, name = posixpath.split(path)
        if parent in self.dirs and name and name not in self.dirs[parent][0]:
            self.dirs[parent][0].append(name)
        if link:
            self.links.add(path)

    def add_file(self, path):
        parent, name = posixpath.split(path)
        self.dirs[parent][1].append(name)


class _Path:
    sep = '/'
    join = staticmethod(posixpath.join)
    split = staticmethod(posixpath.split)
    dirname = staticmethod(posixpath.dirname)
    basename = staticmethod(posixpath.basename)
    splitext = staticmethod(posixpath.splitext)
    normpath = staticmethod(posixpath.normpath)

    def __init__(self, tree):
        self.tree = tree

    def abspath(self, p):
        return posixpath.normpath(p if p.startswith('/') else '/' + p)

    def islink(self, p):
        return p in self.tree.links

    def isdir(self, p):
        return p in self.tree.dirs

    def exists(self, p):
        if p in self.tree.dirs:
            return True
        parent, name = posixpath.split(p)
        return parent in self.tree.dirs and name in self.tree.dirs[parent][1]

    isfile = exists


class FakeOS:
    sep = '/'

    def __init__(self, tree):
        self.tree = tree
        self.path = _Path(tree)
        self.calls = []          # mutating calls, in order

    def walk(self, top, topdown=True, onerror=None, followlinks=False):
        if top not in self.tree.dirs:
            return
        stack = [top]
        # recursive generator, top-down, honouring pruning of the yielded list
        def _walk(d):
            subdirs, files = self.tree.dirs[d]
            dirs = list(subdirs)
            fl = list(files)
            yield d, dirs, fl
            for name in dirs:
                p = posixpath.join(d, name)
                if p in self.tree.links:
                    continue            # os.walk does not descend into symlinked directories
                if p in self.tree.dirs:
                    yield from _walk(p)
        yield from _walk(top)

    def listdir(self, d):
        subdirs, files = self.tree.dirs[d]
        return list(subdirs) + list(files)

    def getcwd(self):
        return '/'

    def _mut(self, kind, *a):
        self.calls.append((kind,) + a)

    def unlink(self, p):
        self._mut('unlink', p)

    def remove(self, p):
        self._mut('remove', p)

    def rmdir(self, p):
        self._mut('rmdir', p)

    def rename(self, a, b):
        self._mut('rename', a, b)

    def replace(self, a, b):
        self._mut('replace', a, b)

    def chmod(self, *a):
        self._mut('chmod', *a)

    def utime(self, *a):
        self._mut('utime', *a)

    def truncate(self, *a):
        self._mut('truncate', *a)

    def open(self, *a, **k):
        self._mut('open', *a)
        raise OSError('open not expected')

    def makedirs(self, *a, **k):
        self._mut('makedirs', *a)

    def mkdir(self, *a, **k):
        self._mut('mkdir', *a)

    def __ch_deep_realize__(self, memo):
        return self
