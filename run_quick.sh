#!/bin/bash
# Runs every quick check once, sequentially; summary in .work/quick/summary.txt
cd "$(dirname "$0")"
mkdir -p .work/quick; : > .work/quick/summary.txt
for p in "$@"; do
  s=$(date +%s)
  ./check $p --tier quick > .work/quick/$p.log 2>&1
  rc=$?
  echo "$p rc=$rc $(( $(date +%s) - s ))s $(grep -E "^$p quick:" .work/quick/$p.log | tail -1)" >> .work/quick/summary.txt
done
