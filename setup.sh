#!/bin/bash
# Build the overlay venv used by every check (offline; idempotent).
# /venv itself cannot import zope.testrunner.runner (namespace clash between
# the editable install's -nspkg.pth and site-packages/zope), and must not be
# modified, so we layer a venv on top of it and repair zope.__path__ there.
set -e
HERE="$(cd "$(dirname "$0")" && pwd)"
V="$HERE/.venv"
if [ -x "$V/bin/python" ] && grep -q VERIF_REPO "$V/lib/python3.12/site-packages/zz_verif_overlay.pth" 2>/dev/null && "$V/bin/python" -c "import crosshair, z3, zope.testrunner.runner" 2>/dev/null; then
    exit 0
fi
rm -rf "$V"
/venv/bin/python -m venv "$V"
SP="$V/lib/python3.12/site-packages"
cat > "$SP/zz_verif_overlay.pth" <<'PTH'
import site; site.addsitedir('/venv/lib/python3.12/site-packages')
import sys; m = sys.modules.get('zope'); m is not None and '/venv/lib/python3.12/site-packages/zope' not in m.__path__ and m.__path__.append('/venv/lib/python3.12/site-packages/zope')
import os, sys; r = os.environ.get('VERIF_REPO'); m = sys.modules.get('zope'); r and r != '/repo' and m is not None and m.__path__.__setitem__(slice(None), [r + '/src/zope'] + [p for p in m.__path__ if not p.startswith('/repo/')])
PTH
PIP_NO_INDEX=1 "$V/bin/pip" install -q --no-index --find-links /opt/veriftools/wheels crosshair-tool >/dev/null
"$V/bin/python" -c "import crosshair, z3, zope.testrunner.runner; print('overlay venv ok', z3.get_version_string())"
