"""C06 - -j N: equal results, ordered contiguous blocks, at most N alive.

sched():  the complete real runner.resume_tests (start loop, reaping, queue
          draining, in-order printing, termination) and the three real result
          collectors; the worker threads are replaced by SchedThread whose
          life is a function of a logical poll clock and *symbolic integers*:
          duration dur_i, lag_i between 'result done' and thread death,
          arrival instants of the child's output lines.  runner.time.sleep()
          advances the clock and delivers what is due.  Symbolic N, verbosity
          (selects Immediate / Deferred / Keepalive collector), dots lines.
equal():  whole real runs (loop-back children) sequentially and with -j N:
          executed tests, verdict, totals and failure / error names agree."""
import types

from zope.testrunner import runner as R

from vt import fullrun as FR
from vt import runworld as RW
from vt import world as W
from vt.util import KeepBytes, cb, ci, pick, untraced

LAST = None
K = 3
S = {}


class Misuse(Exception):
    pass


class SchedThread:
    def __init__(self, target=None, args=(), kwargs=None):
        self.result = args[0]
        self.i = len(S['threads'])
        self.started = None
        self.daemon = False
        S['threads'].append(self)

    def death(self):
        return self.started + S['dur'][self.i] + S['lag'][self.i]

    def start(self):
        if self.started is not None:
            raise Misuse('thread started twice')
        self.started = S['clock']
        alive = sum(1 for t in S['threads'] if t.started is not None and S['clock'] < t.death())
        S['max_alive'] = max(S['max_alive'], alive)
        S['starts'].append((S['clock'], self.i, alive))

    def is_alive(self):
        return self.started is not None and S['clock'] < self.death()

    def join(self, timeout=None):
        pass

    def __ch_deep_realize__(self, memo):
        return self


def deliver():
    for t in S['threads']:
        if t.started is None:
            continue
        i = t.i
        for j, (at, line) in enumerate(S['lines'][i]):
            if (i, j) not in S['delivered'] and S['clock'] >= t.started + at:
                S['delivered'].add((i, j))
                t.result.write(line)
        if i not in S['done'] and S['clock'] >= t.started + S['dur'][i]:
            S['done'].add(i)
            t.result.num_ran = S['ran'][i]
            if S.get('xf') == i + 1:
                S['failures'].append(('t%d' % i, None))
            t.result.done = True


class SchedClock:
    @staticmethod
    def time():
        return float(S['clock'])

    @staticmethod
    def sleep(x):
        alive = sum(1 for t in S['threads'] if t.started is not None and S['clock'] < t.death())
        unstarted = sum(1 for t in S['threads'] if t.started is None)
        S['polls'].append((S['clock'], alive, unstarted, K - unstarted))
        S['clock'] += 1
        if S['clock'] > S['limit']:
            raise Misuse('resume_tests does not terminate (more than %d polls)' % S['limit'])
        deliver()


def sched(n, verbose, dots, d0, d1, d2, g0, g1, g2, a0, a1, a2, xf=0):
    global LAST
    n = ci(n, 1, K + 1)
    xf = ci(xf, 0, K)          # > 0: --stop-on-error is given and child xf-1 reports a failing test when it is done
    verbose = ci(verbose, 0, 2)
    dots = cb(dots)
    dur = [d0, d1, d2]
    lag = [g0, g1, g2]
    at = [a0, a1, a2]
    S.clear()
    S.update(threads=[], clock=0, dur=dur, lag=lag, ran=[3, 5, 7], delivered=set(), done=set(), max_alive=0, starts=[], polls=[], limit=40)
    S['lines'] = []
    for i in range(K):
        ls = [(at[i], b'L%d-line-0\n' % i)]
        if dots:
            ls.append((at[i], b'...\n'))
        ls.append((dur[i], b'L%d-line-1\n' % i))
        S['lines'].append(ls)
    with untraced():
        o = RW.options(['-j%d' % n] + (['-' + 'v' * verbose] if verbose else []) + (['-x'] if xf else []))
        layers = [('w.L%d' % i, None, None) for i in range(K)]
        raw = KeepBytes()
    import sys
    saved = (R.threading, R.time, sys.stdout)
    R.threading = types.SimpleNamespace(Thread=SchedThread)
    R.time = SchedClock
    sys.stdout = raw
    why = None
    total = None
    try:
        try:
            S['xf'] = xf
            S['failures'] = []
            total = R.resume_tests(['t'], o, [], layers, S['failures'], [], [])
        except Misuse as e:
            why = str(e)
    finally:
        R.threading, R.time, sys.stdout = saved
    out = raw.value()
    if why is None:
        why = oracle(n, verbose, dots, out, total)
    LAST = (n, verbose, dots, why, tuple(S['starts']), len(S['polls']), out[:300], xf)
    return why is None


def oracle(n, verbose, dots, out, total):
    if total != 3 + 5 + 7:
        return 'returned %r tests, children ran %d' % (total, 15)
    if S['max_alive'] > n:
        return '%d layer subprocesses alive at the same time with -j%d' % (S['max_alive'], n)
    if len(S['starts']) != K:
        return 'started %d of %d children' % (len(S['starts']), K)
    if [i for _c, i, _a in S['starts']] != list(range(K)):
        return 'children started out of order: %r' % (S['starts'],)
    # work conservation: a free slot and a waiting layer => a start before the next poll
    for a, b in zip(S['polls'], S['polls'][1:]):
        if a[1] < n and a[2] > 0 and b[3] <= a[3]:
            return 'a slot was free (alive %d < %d) and %d layers waited at poll %d, yet nothing was started' % (a[1], n, a[2], a[0])
    if S['polls'] and S['polls'][0][3] != min(n, K):
        return 'first poll: %d children started, expected %d' % (S['polls'][0][3], min(n, K))
    # output: every layer line exactly once, blocks contiguous and in list order
    tagged = [ln for ln in out.split(b'\n') if ln.startswith(b'L') and b'-line-' in ln]
    exp = [b'L%d-line-%d' % (i, j) for i in range(K) for j in range(2)]
    if sorted(tagged) != sorted(exp):
        return 'layer output lines printed %r, children wrote %r' % (tagged, exp)
    if tagged != exp:
        return 'layer blocks not contiguous / not in layer order: %r' % (tagged,)
    if n > 1 and verbose <= 1 and b'...' in out:
        return 'progress dots of a parallel child leaked into the deferred output'
    # the loop must not outlive the last child by more than two polls
    last_death = max(t.death() for t in S['threads'])
    if S['clock'] > last_death + 2:
        return 'parent still polling %d ticks after the last child died' % (S['clock'] - last_death)
    return None


def sched_reach(*a):
    sched(*a)
    return LAST[3] is None and LAST[0] == 2 and LAST[4][1][0] == 0 and LAST[4][2][0] >= 2


# ------------------------------------------------------------------ equality

KA = [W.PASS, W.FAIL, W.ERROR, W.XPASS, W.SKIP_BODY, W.ERR_TD, W.TD_ERR]


def equal(j, ka, kb, su, td, imp, verbose, both=False, opt=0):
    global LAST
    j = ci(j, 1, 3)
    opt = ci(opt, 0, 2)          # 1: --shuffle; 2: every child writes diagnostic lines that end in numbers to its real stderr before its report
    ka, kb = pick(KA, ka), pick(KA, kb)
    su, td = ci(su, 0, 2), ci(td, 0, 3)      # td 3: w.A cannot be torn down (NotImplementedError): the sequential run resumes the rest in subprocesses
    imp = cb(imp)
    both = cb(both)
    verbose = ci(verbose, 0, 2)
    with untraced():
        sud = {1: {'A': 1}, 2: {'B': 1}}.get(su, {})
        tdd = {1: {'A': 1}, 2: {'B': 1}, 3: {'A': 2}}.get(td, {})
        world = FR.World({'a0': W.ERROR if both else W.PASS, 'a1': ka, 'b0': kb, 'b1': W.FAIL if both else W.PASS, 'u0': W.PASS, 'x0': W.PASS, 'x1': W.ERROR if both else W.PASS},
                         su=sud, td=tdd, imp=imp, order=['b0', 'x0', 'a0', 'u0', 'b1', 'a1', 'x1'])
    argv = ['-' + 'v' * verbose] if verbose else []
    if opt == 1:          # --shuffle: the random module is replaced while CrossHair traces, so the order is drawn from a recorded stream
        from harness import c11
        c11.install_rng([3, 1, 4, 1, 5, 9, 2, 6, 5, 3, 5, 8, 9, 7, 9, 3])
        argv = argv + ['--shuffle', '--shuffle-seed', '7']
    else:
        import random as _random
        from zope.testrunner import shuffle as SH
        SH.random = _random
    seq = FR.run(world, 'seq', argv=argv)
    noise = ('noise', b'gc: objects in each generation: 702 4914 80652\nResourceWarning: unclosed file 3 2 1 \n') if opt == 2 else None
    par = FR.run(world, {1: 'j1', 2: 'j2', 3: 'j3'}[j], argv=argv, fault=noise)
    with untraced():
        why = None

        def obs(r):
            p = FR.parse_text(r.text)
            tot = p['total']
            return {
                'escaped': r.escaped, 'thread_exc': tuple(r.thread_exc),
                'executed': sorted(e[2] for e in r.trace if e[1] == 'test'),
                'order of execution inside each layer': tuple(tuple(e[2] for e in r.trace if e[1] == 'test' and e[2][0] == ly) for ly in 'uabx'),
                'failed': bool(r.failed), 'ran': r.ran,
                'total (tests, failures, errors)': tot[:3] if tot else None,
                'failure names': sorted(p['fail_names']), 'error names': sorted(p['err_names']),
                'n failures': len(r.runner.failures), 'n errors': len(r.runner.errors),
                'failure ids': sorted(str(t).split(' ')[0] for t, _ in r.runner.failures),
                'error ids': sorted(str(t).split(' ')[0] for t, _ in r.runner.errors),
            }
        a, b = obs(seq), obs(par)
        for k in a:
            if a[k] != b[k]:
                why = '-j%d differs from the sequential run in %s: %r vs %r' % (j, k, b[k], a[k])
                break
        # layer blocks of the parallel run appear in the sequential layer order
        if why is None:
            import re
            hs = [m for m in re.findall(r'Running (\S+) tests:', seq.text)]
            hp = [m for m in re.findall(r'Running (\S+) tests:', par.text) if m != '.EmptyLayer']
            if hs != hp:
                why = 'layer blocks printed in order %r, sequential order %r' % (hp, hs)
    LAST = (j, W.KIND_NAMES[ka], W.KIND_NAMES[kb], su, td, imp, verbose, why, len(par.children), both, opt)
    return why is None


def equal_reach(*a):
    equal(*a)
    return LAST[7] is None and LAST[8] >= 2


_P = [('n', 'int'), ('verbose', 'int'), ('dots', 'bool')] + [('d%d' % i, 'int') for i in range(3)] + [('g%d' % i, 'int') for i in range(3)] + [('a%d' % i, 'int') for i in range(3)] + [('xf', 'int')]
_C = ', '.join(n for n, _ in _P)


def _sb(dmax, gmax):
    return ('0 <= xf <= 3 and 1 <= n <= 4 and 0 <= verbose <= 2 and ' + ' and '.join('1 <= d%d <= %d and 0 <= g%d <= %d and 0 <= a%d <= d%d' % (i, dmax, i, gmax, i, i) for i in range(3)))


_PE = [('j', 'int'), ('ka', 'int'), ('kb', 'int'), ('su', 'int'), ('td', 'int'), ('imp', 'bool'), ('verbose', 'int'), ('both', 'bool'), ('opt', 'int')]
_CE = ', '.join(n for n, _ in _PE)
_BE = '1 <= j <= 3 and 0 <= ka < %d and 0 <= kb < %d and 0 <= su <= 2 and 0 <= td <= 3 and 0 <= verbose <= 2 and 0 <= opt <= 2' % (len(KA), len(KA))


def _v(**kw):
    v = dict(n=2, verbose=0, dots=True, d0=2, d1=1, d2=1, g0=0, g1=1, g2=0, a0=1, a1=0, a2=1, xf=0)
    v.update(kw)
    return v


def _ve(**kw):
    v = dict(j=2, ka=1, kb=0, su=0, td=0, imp=False, verbose=1, both=False, opt=0)
    v.update(kw)
    return v


SPEC = {
    'property': 'C06',
    'encoded': ['zope.testrunner.runner.resume_tests (complete)', 'runner.DeferredSubprocessResult', 'runner.ImmediateSubprocessResult',
                'runner.KeepaliveSubprocessResult', 'runner._is_dots', 'runner._get_output_buffer',
                'equal(): Runner.run / run_tests / spawn_layer_in_subprocess / SubProcess with loop-back children'],
    'files': ['src/zope/testrunner/runner.py', 'src/zope/testrunner/process.py'],
    'stubs': ['runner.threading.Thread -> SchedThread: is_alive(), result.done, result.num_ran and the arrival of output lines are functions of a logical '
              'poll clock and symbolic integers dur_i >= 1, lag_i >= 0, at_i <= dur_i (done no later than death)',
              'runner.time -> poll clock: sleep() advances one tick and delivers what is due', 'sys.stdout -> byte buffer',
              'equal(): LoopbackPopen children with synchronous threads'],
    'assumptions': ['a dead worker thread implies a reaped child (C07: kill()+communicate() on every path)',
                    'the clock only advances in sleep(): one poll is atomic with respect to thread deaths'],
    'outside': ['the OS scheduler, real pipes and true parallel speed-up', 'more than 3 children', 'durations beyond the stated bound'],
    'harnesses': [
        {'name': 'sched', 'fn': 'sched', 'params': _P, 'call': _C,
         'bounds': {'quick': _sb(2, 1) + ' and verbose != 1 and g1 == 0 and (xf == 0 or (xf == 1 and not dots and g0 == 0 and g2 == 0))', 'thorough': _sb(3, 1) + ' and (xf == 0 or not dots)'},
         'slices': {'quick': ['n == %d and verbose == %d and %s' % (n, vb, d) for n in range(1, 5) for vb in (0, 2) for d in ('dots', 'not dots')],
                    'thorough': ['n == %d and verbose == %d and %s and d0 == %d' % (n, vb, d, x) for n in range(1, 5) for vb in range(3) for d in ('dots', 'not dots') for x in (1, 2, 3)]},
         'reach': 'sched_reach', 'reach_bounds': {'quick': _sb(2, 1) + ' and verbose == 0', 'thorough': _sb(2, 1) + ' and verbose == 0'},
         'timeout': {'quick': 400, 'thorough': 1700},
         'fidelity': [_v(), _v(n=3, verbose=2, d0=2, d1=1, d2=2, g0=1, a0=0), _v(n=1, verbose=1, dots=False), _v(n=4, verbose=2, d0=1, d1=2, d2=1, a1=2), _v(n=2, xf=1, dots=False, d0=1, d1=2, d2=2), _v(n=3, xf=2, dots=False)]},
        {'name': 'equal', 'fn': 'equal', 'params': _PE, 'call': _CE,
         'bounds': {'quick': _BE + ' and verbose == 1 and (su != 0) + (td != 0) + imp <= 1 and kb <= 2 and (not both or (su == 0 and td == 0 and not imp)) and (opt == 0 or (ka <= 1 and kb == 0 and su == 0 and not imp and not both)) and (td != 3 or kb <= 1)', 'thorough': _BE + ' and (su != 0) + (td != 0) + imp <= 1 and (opt == 0 or (su == 0 and not imp))'},
         'slices': {'quick': ['j == %d and ka == %d' % (j, k) for j in (1, 2, 3) for k in range(len(KA))],
                    'thorough': ['j == %d and ka == %d and verbose == %d' % (j, k, vb) for j in (1, 2, 3) for k in range(len(KA)) for vb in range(3)]},
         'reach': 'equal_reach', 'reach_bounds': {'quick': _BE + ' and su == 0', 'thorough': _BE + ' and su == 0'},
         'timeout': {'quick': 400, 'thorough': 1700},
         'fidelity': [_ve(), _ve(j=3, ka=6, kb=2, td=1, verbose=2), _ve(j=1, su=2, imp=True, verbose=0), _ve(j=2, ka=2, kb=1, both=True), _ve(j=2, td=3), _ve(j=3, opt=1, ka=0), _ve(j=1, opt=1, td=3), _ve(j=2, opt=2, ka=2)]},
    ],
}
