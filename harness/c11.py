"""C11 - --shuffle is a seed-determined permutation inside each layer.

perm():    real Shuffle.__init__ / global_setup on a world of 3 layers with
           symbolic sizes; the random stream is symbolic (unbounded ints r_k,
           the k-th draw scaled to n yields r_k mod n - justified by the
           L-FLOOR lemma below); the seed is an unbounded symbolic int.
seedrep(): the seed handed to the RNG is the seed reported (concrete seed pool
           + clock-derived default: '%d' formatting of a symbolic int is out of
           CrossHair's reach, probed).
modes():   whole real Runner.run() (configure -> feature order -> Find ->
           Shuffle -> SubProcess -> Filter -> Listing) in five modes - full
           sequential, --layer filtered, --list-tests, -j2 children, children
           resumed after a NotImplementedError tearDown - on the same symbolic
           stream; every mode must order every layer like the full run, every
           RNG of the run (parent and children) must be seeded with the seed
           the parent reports.
L-FLOOR:   for every IEEE-754 double r in [0,1) and n in 1..N:
           0 <= floor(r*n) <= n-1 (z3, QF_FP; cvc5 cross-check) - this is what
           allows 'floor(rng.random() * n)' to be modelled as an arbitrary
           integer in [0, n-1]."""
import re
import time as _time
import types
import unittest

from zope.testrunner import runner as R
from zope.testrunner import shuffle as SH

from vt import loopback as LB
from vt import runworld as RW
from vt import world as W
from vt.util import FakeGC, cb, ci, pick, untraced

R.gc = FakeGC
R.TestResult._exc_info_to_string = lambda self, err, test: 'traceback'
LAST = None

STREAM = []
DRAWS = []
SEEDS = []
MISUSE = []


class Misuse(Exception):
    pass


class Scaled:
    def __init__(self, k, n):
        self.k, self.n = k, n

    def _val(self):
        n = self.n
        if type(n) is not int or n < 1:
            MISUSE.append('random() scaled by %r' % (n,))
            raise Misuse('scale')
        DRAWS.append((self.k, n))
        return STREAM[self.k] % n
    __floor__ = __int__ = __trunc__ = __index__ = _val

    def __ch_deep_realize__(self, memo):
        return self


class Uniform:
    """Value of rng.random(): supports only `* int` (then floor/int)."""

    def __init__(self, k):
        self.k = k

    def __mul__(self, n):
        return Scaled(self.k, n)
    __rmul__ = __mul__

    def __ch_deep_realize__(self, memo):
        return self


class FakeRandom:
    def __init__(self, seed=None):
        SEEDS.append(('init', seed))
        self.k = 0

    def seed(self, a=None, version=2):
        SEEDS.append(('seed', a))
        self.k = 0

    def random(self):
        k = self.k
        self.k += 1
        if k >= len(STREAM):
            MISUSE.append('more draws than tests allow')
            raise Misuse('draws')
        return Uniform(k)

    def __getattr__(self, name):
        if name.startswith('__'):
            raise AttributeError(name)
        MISUSE.append('RNG method %s() used (only random()/seed() are stable across Python versions)' % name)
        raise Misuse(name)

    def __ch_deep_realize__(self, memo):
        return self


class TickClock:
    """time stub whose time() advances by one second per call: two processes
    never read the same clock value."""
    t = [1000]

    @staticmethod
    def time():
        TickClock.t[0] += 1
        return float(TickClock.t[0])

    @staticmethod
    def sleep(x):
        pass


def install_rng(stream):
    del STREAM[:], DRAWS[:], SEEDS[:], MISUSE[:]
    STREAM.extend(stream)
    SH.random = types.SimpleNamespace(Random=FakeRandom)


LNAMES = ['A', 'B', 'C']


def mk_world(sizes):
    layers = [W.mk_layer(n, (), hooks='st') for n in LNAMES]
    tests = {}
    for L, n, s in zip(layers, LNAMES, sizes):
        tests[n] = [W.mk_test('%s%d' % (n.lower(), i), W.PASS, layer=L) for i in range(s)]
    return layers, tests


class IntClock:
    now = 0

    @staticmethod
    def time():
        return IntClock.now

    @staticmethod
    def sleep(x):
        pass


def perm(sA, sB, sC, seed_given, seed, clock, r0, r1, r2, r3, r4, r5):
    """Kernel: Shuffle on tests_by_layer_name (inserted C, A, B)."""
    global LAST
    W.reset()
    sizes = [ci(sA, 0, 4), ci(sB, 0, 3), ci(sC, 0, 2)]
    seed_given = cb(seed_given)
    install_rng([r0, r1, r2, r3, r4, r5])
    SH.time = IntClock
    IntClock.now = clock          # symbolic int-valued instant (a float clock realises in C)
    with untraced():
        layers, tests = mk_world(sizes)
        o = RW.options(['--shuffle'])
    o.shuffle_seed = seed if seed_given else None
    # the argv handed to children is text: str() of a symbolic int is out of CrossHair's reach (probed); the
    # hand-over of the seed to children is decided by modes() on concrete clocks
    o.__dict__.pop('original_testrunner_args', None)
    r = RW.make_runner(o, [(layers[2], tests['C']), (layers[0], tests['A']), (layers[1], tests['B'])])
    why = None
    try:
        sh = SH.Shuffle(r)
        sh.global_setup()
    except Misuse:
        why = MISUSE[0]
    got = {}
    if why is None:
        for n in LNAMES:
            suite = r.tests_by_layer_name.get('w.' + n)
            if suite is None:
                why = 'layer %s disappeared' % n
                break
            if type(suite) is not unittest.TestSuite:
                why = 'suite class of %s changed' % n
                break
            got[n] = [str(t) for t in suite]
            if sorted(got[n]) != sorted(str(t) for t in tests[n]):
                why = 'layer %s: %r is not a permutation of its own tests' % (n, got[n])
                break
        if why is None and len(r.tests_by_layer_name) != 3:
            why = 'layers appeared'
    if why is None:
        exp_seed = seed if seed_given else clock * 256
        if not SEEDS:
            why = 'no RNG was seeded'
        for s in SEEDS:
            if not (s[1] == exp_seed):
                why = 'RNG seeded with another value than the requested / clock-derived seed'
        if why is None and not (sh.seed == exp_seed):
            why = 'Shuffle.seed differs from the seed used'
    LAST = (tuple(sizes), seed_given, why, tuple(sorted((k, tuple(v)) for k, v in got.items())))
    return why is None


def perm_reach(*a):
    perm(*a)
    return LAST[2] is None and any(list(v) != sorted(v) for _k, v in LAST[3])


SEEDPOOL = [0, 1, -1, 7, 123456789012345678901234567890, None]


def seedrep(si, clock, sA):
    """Seed reported == seed used (concrete seeds; clock-derived when None)."""
    global LAST
    W.reset()
    seed = pick(SEEDPOOL, si)
    clock = ci(clock, 0, 3)
    sA = ci(sA, 0, 3)
    install_rng([0] * 6)
    SH.time = IntClock
    IntClock.now = [0.0, 1.5, 1234.567, 2.0 ** 40][clock]
    msgs = []

    class Out(RW.RecOut):
        def info(self, m):
            msgs.append(m)
    with untraced():
        layers, tests = mk_world([sA, 1, 0])
        o = RW.options(['--shuffle'], out_cls=Out)
    o.shuffle_seed = seed
    r = RW.make_runner(o, [(layers[0], tests['A']), (layers[1], tests['B'])])
    sh = SH.Shuffle(r)
    sh.global_setup()
    sh.report()
    with untraced():
        used = {s[1] for s in SEEDS}
        nums = [int(x) for m in msgs for x in re.findall(r'-?\d+', m)]
        why = None
        if len(used) != 1:
            why = 'RNG seeded with several values %r' % (sorted(map(repr, used)),)
        elif nums != [list(used)[0]]:
            why = 'reported %r, used %r' % (nums, used)
        elif seed is not None and list(used)[0] != seed:
            why = 'used %r, requested %r' % (used, seed)
    LAST = (seed, clock, sA, why, tuple(msgs))
    return why is None


# ------------------------------------------------------------------ modes

MODES = ['layerB', 'list', 'j2', 'resume', 'notA', 'list_layerB', 'j3', 'list_j2']


def _order(trace, pid_filter=None):
    out = {}
    for e in trace:
        if e[1] == 'test':
            out.setdefault(e[2][0].upper(), []).append((e[0], e[2]))
    return out


def _run(argv, suites):
    W.reset()
    LB.reset(suites)
    del SEEDS[:], DRAWS[:]
    TickClock.t[0] = 1000
    with RW.Captured() as cap:
        r = LB.run_parent(argv, suites)
    return r, list(W.TRACE), cap.text(), list(SEEDS)


def modes(mode, sA, sB, seed_given, r0, r1, r2, r3, r4, spell=0):
    global LAST
    mode = pick(MODES, mode)
    spell = ci(spell, 0, 2)      # how an explicit seed is spelled: two tokens, --shuffle-seed=N, unambiguous abbreviation
    sizes = [ci(sA, 0, 3), ci(sB, 2, 3), 2]
    seed_given = cb(seed_given)
    install_rng([r0, r1, r2, r3, r4])
    LB.install()
    R.time = TickClock
    SH.time = TickClock
    with untraced():
        nie = mode == 'resume'
        layers = [W.mk_layer('A', (), hooks='st', td=2 if nie else 0), W.mk_layer('B', (), hooks='st'), W.mk_layer('C', (), hooks='st')]
        tests = []
        for L, n, s in zip(layers, LNAMES, sizes):
            tests.append([W.mk_test('%s%d' % (n.lower(), i), W.PASS, layer=L) for i in range(s)])
        flat = tests[2] + tests[0] + tests[1]

        def suites():
            return [unittest.TestSuite(flat)]
    base = ['--shuffle'] + ([['--shuffle-seed', '42'], ['--shuffle-seed=42'], ['--shuffle-se', '42']][spell] if seed_given else [])
    why = None
    try:
        _r0, tr0, out0, seeds0 = _run(base, suites)
        extra = {'layerB': ['--layer', 'w.B'], 'list': ['--list-tests'], 'j2': ['-j2'], 'resume': [], 'notA': ['--layer', '!w.A'],
                 'list_layerB': ['--list-tests', '--layer', 'w.B'], 'j3': ['-j3'], 'list_j2': ['--list-tests', '-j2']}[mode]
        if mode == 'resume':
            # reference for 'resume' is a world whose layer A can be torn down
            with untraced():
                layers[0].tearDown = classmethod(lambda cls: W.ev('td', 'A'))
            _r0, tr0, out0, seeds0 = _run(base, suites)
            with untraced():
                def td(cls):
                    W.ev('td', 'A')
                    raise NotImplementedError
                layers[0].tearDown = classmethod(td)
        _r1, tr1, out1, seeds1 = _run(base + extra, suites)
    except Misuse:
        why = MISUSE[0]
    summary = None
    if why is None:
        with untraced():
            why, summary = modes_oracle(mode, sizes, seed_given, tr0, out0, seeds0, tr1, out1, seeds1)
    LAST = (mode, tuple(sizes), seed_given, why, summary)
    return why is None


def _listed(text):
    out = {}
    cur = None
    for ln in text.splitlines():
        m = re.match(r'Listing (\S+) tests:', ln)
        if m:
            cur = m.group(1).split('.')[-1]
            out[cur] = []
        elif cur is not None and ln.startswith('  '):
            out[cur].append(ln.strip())
    return out


def _reported_seed(text):
    m = re.findall(r'shuffled using seed number (-?\d+)', text)
    return [int(x) for x in m]


def modes_oracle(mode, sizes, seed_given, tr0, out0, seeds0, tr1, out1, seeds1):
    ref = {k: [n for _p, n in v] for k, v in _order(tr0).items()}
    exp_layers = {n for n, s in zip(LNAMES, sizes) if s}
    if set(ref) != exp_layers:
        return 'reference run executed layers %r' % sorted(ref), None
    for n, s in zip(LNAMES, sizes):
        if s and sorted(ref[n]) != ['%s%d' % (n.lower(), i) for i in range(s)]:
            return 'reference run: layer %s executed %r' % (n, ref[n]), None
    if mode in ('list', 'list_layerB', 'list_j2'):
        if any(e[1] in ('test', 'su', 'td') for e in tr1):
            return '--list-tests executed test or layer code', None
        got = _listed(out1)
    else:
        o1 = _order(tr1)
        got = {k: [n for _p, n in v] for k, v in o1.items()}
        if mode in ('j2', 'j3', 'resume'):
            for k, v in o1.items():
                if len({p for p, _n in v}) != 1:
                    return 'layer %s ran in several processes' % k, None
    want = {'layerB': {'B'}, 'list_layerB': {'B'}, 'notA': {'B', 'C'}}.get(mode, exp_layers) & exp_layers
    if set(k for k, v in got.items() if v) != want:
        return 'mode %s ran/listed layers %r, expected %r' % (mode, sorted(got), sorted(want)), None
    for k in want:
        if got[k] != ref[k]:
            return 'layer %s: order %r in mode %s differs from %r in the full run (same seed, same stream)' % (k, got[k], mode, ref[k]), None
    rep0, rep1 = _reported_seed(out0), _reported_seed(out1)
    if not rep0 or not rep1 or len(set(rep0)) != 1 or len(set(rep1)) != 1:
        return 'seeds reported by the run (parent and relayed child output): %r / %r' % (rep0, rep1), None
    if seed_given and (rep0[0] != 42 or rep1[0] != 42):
        return 'reported seed %r/%r, requested 42' % (rep0, rep1), None
    for rep, seeds, what in ((rep0, seeds0, 'full run'), (rep1, seeds1, 'mode ' + mode)):
        bad = [s for s in seeds if s[1] != rep[0]]
        if bad:
            return '%s: an RNG (parent or child process) was seeded with %r, the run reported seed %r' % (what, bad[0][1], rep[0]), None
        if not seeds:
            return '%s: no RNG seeded' % what, None
    return None, (tuple(sorted((k, tuple(v)) for k, v in ref.items())), len(seeds1))


def modes_reach(*a):
    modes(*a)
    return LAST[3] is None and any(list(v) != sorted(v) for _k, v in LAST[4][0]) and LAST[4][1] >= 2


USEL = ['nonunit', 'unit', 'layerZ', 'nonunit_j2', 'list_nonunit', 'unit_and_nonunit']


def unitsel(mode, sU, sZ, r0, r1, r2, r3, r4):
    """Selecting or deselecting the unit-test layer (-u / -f / --layer) must not change the order inside the layers that
    remain: one RNG is shared by all layers in sorted-name order, and 'zope.testrunner.layer.UnitTests' sorts between
    'w.A' and 'zz.Z'."""
    global LAST
    mode = pick(USEL, mode)
    sU, sZ = ci(sU, 0, 3), ci(sZ, 2, 3)
    install_rng([r0, r1, r2, r3, r4])
    LB.install()
    R.time = TickClock
    SH.time = TickClock
    with untraced():
        A = W.mk_layer('A', (), hooks='st')
        Z = W.mk_layer('Z', (), hooks='st', module='zz')
        ta = [W.mk_test('a%d' % i, W.PASS, layer=A) for i in range(2)]
        tz = [W.mk_test('z%d' % i, W.PASS, layer=Z) for i in range(sZ)]
        tu = [W.mk_test('u%d' % i, W.PASS) for i in range(sU)]
        flat = tz + tu + ta

        def suites():
            return [unittest.TestSuite(flat)]
    base = ['--shuffle', '--shuffle-seed', '42']
    extra = {'nonunit': ['-f'], 'unit': ['-u'], 'layerZ': ['--layer', 'zz.Z'], 'nonunit_j2': ['-f', '-j2'], 'list_nonunit': ['-f', '--list-tests'],
             'unit_and_nonunit': ['-u', '-f']}[mode]
    why = None
    summary = None
    try:
        _r0, tr0, out0, seeds0 = _run(base, suites)
        _r1, tr1, out1, seeds1 = _run(base + extra, suites)
    except Misuse:
        why = MISUSE[0]
    if why is None:
        with untraced():
            ref = {k: [n for _p, n in v] for k, v in _order(tr0).items()}
            if mode == 'list_nonunit':
                got = {k[0].upper() if k != 'UnitTests' else 'U': v for k, v in _listed(out1).items()}
                if any(e[1] in ('test', 'su', 'td') for e in tr1):
                    why = '--list-tests executed test or layer code'
            else:
                got = {k: [n for _p, n in v] for k, v in _order(tr1).items()}
            all_layers = {'A', 'Z'} | ({'U'} if sU else set())
            want = {'nonunit': {'A', 'Z'}, 'unit': {'U'}, 'layerZ': {'Z'}, 'nonunit_j2': {'A', 'Z'}, 'list_nonunit': {'A', 'Z'},
                    'unit_and_nonunit': all_layers}[mode] & all_layers
            if why is None and set(ref) != all_layers:
                why = 'reference run executed layers %r' % sorted(ref)
            if why is None and {k for k, v in got.items() if v} != want:
                why = 'mode %s ran/listed layers %r, expected %r' % (mode, sorted(got), sorted(want))
            if why is None:
                for k in sorted(want):
                    if got[k] != ref[k]:
                        why = 'layer %s: order %r in mode %s differs from %r in the full run (same seed, same stream)' % (k, got[k], mode, ref[k])
                        break
            summary = tuple(sorted((k, tuple(v)) for k, v in ref.items()))
    LAST = (mode, sU, sZ, why, summary)
    return why is None


def unitsel_reach(*a):
    unitsel(*a)
    return LAST[3] is None and LAST[4] and any(list(v) != sorted(v) for _k, v in LAST[4])


# ------------------------------------------------------------------ discovery order feeding the shuffle

PKG_ARGV = [['-s', 'alpha', '-s', 'bravo', '-s', 'charlie', '-s', 'alpha/'], ['-s', 'charlie', '-s', 'alpha', '-s', 'bravo'],
            ['-s', 'bravo/', '-s', 'alpha', '-s', 'bravo', '-s', 'charlie', '-s', 'alpha'], ['-s', 'delta.sub', '-s', 'delta/sub', '-s', 'alpha']]


def pkgs(v):
    """The pre-shuffle order inside a layer is the discovery order, which follows the order of the -s/--package options:
    the real get_options must hand find.test_dirs the same package sequence in every interpreter (this harness runs under
    several PYTHONHASHSEED values; the engine compares the sets of path summaries of the runs)."""
    global LAST
    argv = pick(PKG_ARGV, v)
    with untraced():
        from zope.testrunner.options import get_options
        o = get_options(['t', '--path', '/r'] + list(argv), [])
        got = list(o.package)
        want = []
        for a in argv:
            if a != '-s':
                n = a.rstrip('/').replace('/', '.')
                want.append(n)
        seen = []
        for g in got:
            if g not in seen:
                seen.append(g)
        exp = []
        for w_ in want:
            if w_ not in exp:
                exp.append(w_)
    LAST = (tuple(argv), tuple(got))
    return seen == exp


# ------------------------------------------------------------------ L-FLOOR

def lfloor(nmax, timeout_ms=20000):
    """z3 (QF_FP): no double r in [0,1) has floor(r*n) outside [0, n-1]."""
    import z3
    out = []
    t0 = _time.time()
    rm = z3.RNE()
    for n in range(1, nmax + 1):
        r = z3.FP('r', z3.Float64())
        s = z3.Solver()
        s.set('timeout', timeout_ms)
        prod = z3.fpMul(rm, r, z3.FPVal(float(n), z3.Float64()))
        fl = z3.fpRoundToIntegral(z3.RTN(), prod)
        s.add(z3.fpGEQ(r, z3.FPVal(0.0, z3.Float64())), z3.fpLT(r, z3.FPVal(1.0, z3.Float64())))
        s.add(z3.Or(z3.fpLT(fl, z3.FPVal(0.0, z3.Float64())), z3.fpGT(fl, z3.FPVal(float(n - 1), z3.Float64()))))
        out.append((n, str(s.check())))
    return out, round(_time.time() - t0, 2)


def extra_evidence(tier):
    nmax = 8 if tier == 'quick' else 64
    res, secs = lfloor(nmax)
    bad = [n for n, v in res if v != 'unsat']
    if bad:
        raise RuntimeError('L-FLOOR not proved for n in %r' % bad)
    return {'lemma_L_FLOOR': {'statement': 'forall double r, 0 <= r < 1, n in 1..%d: 0 <= floor(r*n) <= n-1 (round-to-nearest-even product)' % nmax,
                              'solver': 'z3 QF_FP', 'queries': len(res), 'all_unsat': True, 'solver_s': secs}}


_PP = [('sA', 'int'), ('sB', 'int'), ('sC', 'int'), ('seed_given', 'bool'), ('seed', 'int'), ('clock', 'int')] + [('r%d' % i, 'int') for i in range(6)]
_PC = ', '.join(n for n, _ in _PP)
_PB = '0 <= sA <= 4 and 0 <= sB <= 3 and 0 <= sC <= 2 and clock >= 0 and ' + ' and '.join('r%d >= 0' % i for i in range(6))
_PM = [('mode', 'int'), ('sA', 'int'), ('sB', 'int'), ('seed_given', 'bool')] + [('r%d' % i, 'int') for i in range(5)] + [('spell', 'int')]
_MC = ', '.join(n for n, _ in _PM)
_MB = '0 <= spell <= 2 and (seed_given or spell == 0) and 0 <= mode < %d and 0 <= sA <= 3 and 2 <= sB <= 3 and ' % len(MODES) + ' and '.join('r%d >= 0' % i for i in range(5))


def _vp(**kw):
    v = dict(sA=3, sB=2, sC=1, seed_given=True, seed=5, clock=3, r0=1, r1=0, r2=1, r3=0, r4=0, r5=0)
    v.update(kw)
    return v


def _vm(**kw):
    v = dict(mode=0, sA=2, sB=2, seed_given=True, r0=0, r1=0, r2=0, r3=0, r4=0, spell=0)
    v.update(kw)
    return v


SPEC = {
    'property': 'C11',
    'encoded': ['zope.testrunner.shuffle.Shuffle.__init__', 'Shuffle.global_setup', 'Shuffle.report',
                'zope.testrunner.runner.Runner.run / configure (feature order)', 'filter.Filter.global_setup', 'listing.Listing',
                'process.SubProcess', 'runner.resume_tests', 'runner.spawn_layer_in_subprocess (argv handed to children)'],
    'files': ['src/zope/testrunner/shuffle.py', 'src/zope/testrunner/runner.py', 'src/zope/testrunner/filter.py',
              'src/zope/testrunner/listing.py', 'src/zope/testrunner/process.py'],
    'stubs': ['shuffle.random -> FakeRandom: records every seed; random() returns an object that only supports "* n" then floor()/int(), '
              'yielding r_k mod n for the symbolic stream r (lemma L-FLOOR); any other RNG method is flagged',
              'shuffle.time / runner.time -> int-valued symbolic clock (perm) or a clock that advances on every call (modes)',
              'modes(): LoopbackPopen children, synchronous threads, get_options untraced on concrete argv'],
    'assumptions': ['two RNGs seeded with the same value deliver the same stream, RNGs seeded with different values deliver unrelated streams '
                    '(the Mersenne Twister itself is trusted stdlib)'],
    'outside': ['the Mersenne Twister and other Python versions (one interpreter here)', 'L-FLOOR is proved for n <= 64 (thorough) / 8 (quick)',
                'layers with more than 4 tests'],
    'harnesses': [
        {'name': 'perm', 'fn': 'perm', 'params': _PP, 'call': _PC,
         'bounds': {'quick': _PB, 'thorough': _PB},
         'slices': {'quick': ['sA == %d and %s' % (a, g) for a in range(5) for g in ('seed_given', 'not seed_given')],
                    'thorough': ['sA == %d and sB == %d and %s' % (a, b, g) for a in range(5) for b in range(4) for g in ('seed_given', 'not seed_given')]},
         'reach': 'perm_reach', 'reach_bounds': {'quick': _PB + ' and sA == 2 and sB == 0 and sC == 0', 'thorough': _PB + ' and sA == 2 and sB == 0 and sC == 0'},
         'timeout': {'quick': 200, 'thorough': 850},
         'fidelity': [_vp(), _vp(seed_given=False, sA=4, sB=3, sC=2, r0=3, r1=2, r2=1, r3=2, r4=1, r5=1), _vp(sA=0, sB=0, sC=0)]},
        {'name': 'seedrep', 'fn': 'seedrep', 'params': [('si', 'int'), ('clock', 'int'), ('sA', 'int')], 'call': 'si, clock, sA',
         'bounds': {'quick': '0 <= si < 6 and 0 <= clock <= 3 and 0 <= sA <= 3', 'thorough': '0 <= si < 6 and 0 <= clock <= 3 and 0 <= sA <= 3'},
         'timeout': {'quick': 120, 'thorough': 300},
         'fidelity': [dict(si=4, clock=0, sA=2), dict(si=5, clock=2, sA=1)]},
        {'name': 'pkgs', 'fn': 'pkgs', 'params': [('v', 'int')], 'call': 'v',
         'bounds': {'quick': '0 <= v < %d' % len(PKG_ARGV), 'thorough': '0 <= v < %d' % len(PKG_ARGV)},
         'hashseeds': [0, 1, 2, 3, 4, 5],
         'timeout': {'quick': 120, 'thorough': 120},
         'fidelity': [dict(v=0)]},
        {'name': 'modes', 'fn': 'modes', 'params': _PM, 'call': _MC,
         'bounds': {'quick': _MB + ' and sB == 2 and (mode <= 4 or mode == 7) and (spell == 0 or (sA == 2 and mode >= 1 and mode <= 3))', 'thorough': _MB + ' and (spell == 0 or sB == 2)'},
         'slices': {'quick': ['mode == %d and sA == %d' % (m, a) for m in (0, 1, 2, 3, 4, 7) for a in (0, 2, 3)],
                    'thorough': ['mode == %d and sA == %d and sB == %d' % (m, a, b) for m in range(len(MODES)) for a in range(4) for b in (2, 3)]},
         'reach': 'modes_reach', 'reach_bounds': {'quick': _MB + ' and mode == 2 and sA == 2 and sB == 2 and seed_given',
                                                  'thorough': _MB + ' and mode == 2 and sA == 2 and sB == 2 and seed_given'},
         'timeout': {'quick': 300, 'thorough': 850},
         'fidelity': [_vm(), _vm(mode=2, r0=1, r1=1), _vm(mode=3, sA=3, r0=2, r1=1, r2=1, r3=1), _vm(mode=2, spell=1, r0=1), _vm(mode=1, spell=2, r1=1)]},
        {'name': 'unitsel', 'fn': 'unitsel', 'params': [('mode', 'int'), ('sU', 'int'), ('sZ', 'int')] + [('r%d' % i, 'int') for i in range(5)],
         'call': 'mode, sU, sZ, r0, r1, r2, r3, r4',
         'bounds': {'quick': '0 <= mode < %d and 0 <= sU <= 3 and 2 <= sZ <= 3 and sZ == 2 and sU <= 2 and ' % len(USEL) + ' and '.join('r%d >= 0' % i for i in range(5)),
                    'thorough': '0 <= mode < %d and 0 <= sU <= 3 and 2 <= sZ <= 3 and ' % len(USEL) + ' and '.join('r%d >= 0' % i for i in range(5))},
         'slices': {'quick': ['mode == %d' % m for m in range(len(USEL))], 'thorough': ['mode == %d and sU == %d' % (m, u) for m in range(len(USEL)) for u in range(4)]},
         'reach': 'unitsel_reach', 'reach_bounds': {'quick': 'mode == 0 and sU == 2 and sZ == 2 and ' + ' and '.join('r%d >= 0' % i for i in range(5)),
                                                    'thorough': 'mode == 0 and sU == 2 and sZ == 2 and ' + ' and '.join('r%d >= 0' % i for i in range(5))},
         'timeout': {'quick': 400, 'thorough': 1700},
         'fidelity': [dict(mode=0, sU=2, sZ=2, r0=1, r1=0, r2=1, r3=5, r4=2), dict(mode=3, sU=3, sZ=3, r0=0, r1=1, r2=2, r3=0, r4=1), dict(mode=4, sU=0, sZ=2, r0=1, r1=1, r2=1, r3=1, r4=1)]},
    ],
}
