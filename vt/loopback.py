"""Loop-back execution of layer subprocesses: the *real child side* of the
runner (Runner(args=[..., '--resume-layer', ...]).run()) is executed
in-process, with its own stdout/stderr/stdin and a logical pid, and the bytes
it produced are served to the parent through pipe-like objects.  Transport
faults are injected on the bytes."""
import io
import sys
import types

from zope.testrunner import find as F
from zope.testrunner import options as O
from zope.testrunner import runner as R

from vt import world as W
from vt.util import KeepBytes, Stream, TextOut, install_clocks, untraced

WORLD = {}          # 'suites': callable -> found_suites for a child
CHILDREN = []       # one record per spawned child
FAULT = {}          # resume_number -> fault spec
NEXTPID = [1]
_real_get_options = O.get_options


def fast_get_options(args=None, defaults=None):
    """The real get_options, evaluated without tracing: argv is concrete
    text by the time the runner parses it (argparse costs ~1 s per path when
    traced and is exercised symbolically by the C09/C14 harnesses)."""
    with untraced():
        return _real_get_options(list(args), list(defaults) if defaults else defaults)


class SyncThread:
    """threading.Thread whose start() runs the target to completion."""

    def __init__(self, target=None, args=(), kwargs=None):
        self.target, self.args = target, args
        self.daemon = False
        self.exc = None

    def start(self):
        try:
            self.target(*self.args)
        except Exception as e:       # a thread's exception never reaches the starter
            self.exc = e
            THREAD_EXC.append(type(e).__name__)

    def is_alive(self):
        return False

    def join(self, timeout=None):
        pass

    def __ch_deep_realize__(self, memo):
        return self


THREAD_EXC = []


class Pipe:
    def __init__(self, data):
        self.data = data
        self.lines = data.splitlines(True)

    def readline(self):
        return self.lines.pop(0) if self.lines else b''

    def read(self):
        return self.data

    def close(self):
        pass

    def __ch_deep_realize__(self, memo):
        return self


class LoopbackPopen:
    def __init__(self, args, **kw):
        i = args.index('--resume-layer')
        number = int(args[i + 2])
        fault = FAULT.get(number) or FAULT.get('*') or ('none',)
        rec = {'layer': args[i + 1], 'number': number, 'fault': fault, 'killed': 0, 'reaped': 0}
        CHILDREN.append(rec)
        self.rec = rec
        if fault[0] == 'spawn':
            raise OSError(2, 'cannot start child (injected)')
        child_argv = ['t'] + list(args[i:])
        raw = KeepBytes()
        out = TextOut(raw, encoding='utf-8', write_through=True, errors='backslashreplace')
        err = Stream()
        saved = (sys.stdout, sys.stderr, sys.stdin, W.PID[0])
        saved_cache = dict(F._layer_name_cache)
        W.PID[0] = rec['pid'] = NEXTPID[0]
        NEXTPID[0] += 1
        sys.stdout, sys.stderr = out, err
        died = None
        try:
            r = R.Runner(args=child_argv, found_suites=WORLD['suites'](), script_parts=['t'])
            try:
                r.run()
            except SystemExit:
                pass
            except Exception as e:      # the child process dies with a traceback on stderr
                died = type(e).__name__
            rec['failed'] = r.failed
            rec['ran'] = r.ran
        finally:
            sys.stdout, sys.stderr, sys.stdin, W.PID[0] = saved
            F._layer_name_cache.clear()
            F._layer_name_cache.update(saved_cache)
        errbytes = err.getvalue().encode('utf-8', 'backslashreplace')
        if died:
            errbytes = b'Traceback (most recent call last):\n' + died.encode() + b'\n'
        rec['honest_stderr'] = errbytes
        if fault[0] == 'no_report':          # child killed before it reported
            errbytes = b''
        elif fault[0] == 'truncate':         # report cut after fault[1] bytes
            errbytes = errbytes[:fault[1]]
        elif fault[0] == 'keep_report_lines':   # child died after writing fault[1] complete lines of its report
            lines = errbytes.splitlines(True)
            k = 0
            for i, ln in enumerate(lines):      # the report starts at the first 3-integer line
                parts = ln.split()
                if len(parts) == 3 and all(p.isdigit() for p in parts):
                    k = i
                    break
            errbytes = b''.join(lines[:k + fault[1]])
        elif fault[0] == 'noise':            # noise lines before the report
            errbytes = fault[1] + errbytes
        rec['stderr'] = errbytes
        rec['died'] = died
        self.stdout = Pipe(raw.value())
        self.stderr = Pipe(errbytes)

    def kill(self):
        self.rec['killed'] += 1

    def communicate(self):
        self.rec['reaped'] += 1
        return (b'', b'')

    def __ch_deep_realize__(self, memo):
        return self


def install(sync_threads=True):
    install_clocks()
    R.get_options = fast_get_options
    R.subprocess = types.SimpleNamespace(Popen=LoopbackPopen, PIPE=-1)
    if sync_threads:
        R.threading = types.SimpleNamespace(Thread=SyncThread)


def reset(suites):
    WORLD['suites'] = suites
    del CHILDREN[:]
    del THREAD_EXC[:]
    FAULT.clear()
    NEXTPID[0] = 1


def run_parent(argv, suites):
    """Whole real Runner.run() of the parent on `suites()`; returns the runner.
    stdout/stderr of the parent are captured by the caller."""
    r = R.Runner(args=['t'] + list(argv), found_suites=suites(), script_parts=['t'])
    r.run()
    return r
