"""C09 - nearest layer/level declaration wins; level switches; unit switches.

levels(): the real tests_from_suite over a 3-deep suite nesting with
*unbounded* symbolic integers for every level and for --at-level /
--only-level (genuine LIA reasoning in z3).
layers(): nearest layer declaration (string / object / absent per depth).
unit(): real get_options post-processing + real Filter.global_setup.
"""
import sys
import unittest

from zope.testrunner import filter as FL
from zope.testrunner import find as F
from zope.testrunner.options import get_options

from vt.util import cb, pick, untraced

LAST = None
UNIT = 'zope.testrunner.layer.UnitTests'


class T(unittest.TestCase):
    def runTest(self):
        pass

    def __str__(self):
        return 'tt'

    def __ch_deep_realize__(self, memo):
        return self


_OPTS = {}


def _options(argv):
    """Real get_options on a concrete argv; cached, untraced (argparse does not
    depend on any undecided symbolic value)."""
    key = tuple(argv)
    with untraced():
        if key not in _OPTS:
            _OPTS[key] = get_options(['t'] + list(argv), [])
        o = _OPTS[key]
        c = type(o)()
        c.__dict__.update(o.__dict__)
        return c


ARGV_ALL = [['--all'], ['--all', '--at-level', '2'], ['--at-level', '2', '--all'], ['--all', '-a', '0'], ['--at-level=-1', '--all']]


def levels(has_t, lt, has_s1, l1, has_s2, l2, at, use_only, only, all_, combo=0):
    global LAST
    has_t, has_s1, has_s2, use_only, all_ = map(cb, (has_t, has_s1, has_s2, use_only, all_))
    combo = pick(list(range(len(ARGV_ALL))), combo)
    t = T()
    if has_t:
        t.level = lt
    s1 = unittest.TestSuite([t])
    if has_s1:
        s1.level = l1
    s2 = unittest.TestSuite([s1])
    if has_s2:
        s2.level = l2
    o = _options(ARGV_ALL[combo] if all_ else [])      # --all together with --at-level, in either order, still means every level
    if not all_:
        o.at_level = at            # injected: argv is text, the integer stays symbolic
    o.only_level = only if use_only else None
    got = list(F.tests_from_suite(s2, o, accept=None))
    eff = lt if has_t else (l1 if has_s1 else (l2 if has_s2 else 1))
    if use_only:
        exp = eff == only
    elif all_:
        exp = True
    else:
        exp = at <= 0 or eff <= at
    n = len(got)
    LAST = (has_t, has_s1, has_s2, use_only, all_, n)
    ok = n == (1 if exp else 0)
    if n == 1:
        ok = ok and got[0][0] is t and got[0][1] == UNIT
    return ok


def levels_reach(*a):
    levels(*a)
    return LAST is not None and LAST[5] == 1 and LAST[1] and not LAST[0]


class LA:
    pass


class LB:
    pass


class LC:
    pass


LA.__module__ = LB.__module__ = LC.__module__ = 'w'
_OBJ = [LA, LB, LC]
_STR = ['s.X', 's.Y', 's.Z']


def _decl(kind, depth):
    """kind: 0 absent, 1 string name, 2 layer object"""
    if kind == 1:
        return _STR[depth]
    if kind == 2:
        return _OBJ[depth]
    return None


def layers(kt, k1, k2, k3):
    """Layer attribute present (string / object) or absent on the test and on
    three enclosing suites."""
    global LAST
    ks = [pick([0, 1, 2], k) for k in (kt, k1, k2, k3)]
    t = T()
    node = t
    objs = [t]
    for _ in range(3):
        node = unittest.TestSuite([node])
        objs.append(node)
    for depth, (obj, k) in enumerate(zip(objs, ks)):
        d = _decl(k, min(depth, 2)) if depth < 3 else (None if k == 0 else ('s.OUT' if k == 1 else LC))
        if d is not None:
            obj.layer = d
    o = _options([])
    got = list(F.tests_from_suite(objs[-1], o, accept=None))
    exp = UNIT
    for depth, k in enumerate(ks):
        if k:
            d = objs[depth].layer
            exp = d if isinstance(d, str) else d.__module__ + '.' + d.__name__
            break
    LAST = (tuple(ks), [g[1] for g in got])
    return len(got) == 1 and got[0][1] == exp and got[0][0] is t


def layers_reach(*a):
    layers(*a)
    return LAST[1] == ['w.LB']


class T2(T):
    def __init__(self, nm):
        super().__init__()
        self.nm = nm

    def __str__(self):
        return self.nm


def tree(h0, v0, h1, v1, h2, v2, hs, vs, ho, vo, at, ly1, lys, use_only, only):
    """Three tests in one tree - outer[ inner[ t0, t1 ], t2 ] - with symbolic presence of a level on every node (unbounded
    integers) and of a layer on t1 / inner: every test is yielded at most once, with the level and the layer declared nearest
    to it; siblings do not influence each other."""
    global LAST
    h0, h1, h2, hs, ho, use_only = map(cb, (h0, h1, h2, hs, ho, use_only))
    ly1, lys = pick([0, 1, 2], ly1), pick([0, 1, 2], lys)
    ts = [T2('t0'), T2('t1'), T2('t2')]
    for t, h, v in zip(ts, (h0, h1, h2), (v0, v1, v2)):
        if h:
            t.level = v
    inner = unittest.TestSuite(ts[:2])
    outer = unittest.TestSuite([inner, ts[2]])
    if hs:
        inner.level = vs
    if ho:
        outer.level = vo
    d1, ds = _decl(ly1, 0), _decl(lys, 1)
    if d1 is not None:
        ts[1].layer = d1
    if ds is not None:
        inner.layer = ds
    o = _options([])
    o.at_level = at
    o.only_level = only if use_only else None
    got = list(F.tests_from_suite(outer, o, accept=None))

    def lname(d):
        return d if isinstance(d, str) else d.__module__ + '.' + d.__name__
    eff = [v0 if h0 else (vs if hs else (vo if ho else 1)), v1 if h1 else (vs if hs else (vo if ho else 1)), v2 if h2 else (vo if ho else 1)]
    lay = [lname(ds) if ds is not None else UNIT, lname(d1) if d1 is not None else (lname(ds) if ds is not None else UNIT), UNIT]
    exp = []
    for t, e, ln in zip(ts, eff, lay):
        if (e == only) if use_only else (at <= 0 or e <= at):
            exp.append((t.nm, ln))
    res = [(g[0].nm, g[1]) for g in got]
    LAST = (h0, h1, h2, hs, ho, ly1, lys, use_only, tuple(res))
    return res == exp


def tree_reach(*a):
    tree(*a)
    return len(LAST[8]) == 2 and LAST[3] and not LAST[0]


class _Out:
    def __getattr__(self, n):
        return lambda *a, **k: None


class _Runner:
    pass


_LPOOL = [None, 'A', '!A', 'Unit', '!Unit', 'w', '!w', 'nomatch']
_NAMES = [UNIT, 'w.A', 'w.B']


def unit(u, f, lp, lp2):
    """-u / -f / --layer through the real option post-processing and the
    real Filter.global_setup."""
    global LAST
    u, f = cb(u), cb(f)
    p1, p2 = pick(_LPOOL, lp), pick(_LPOOL, lp2)
    argv = (['-u'] if u else []) + (['-f'] if f else [])
    for p in (p1, p2):
        if p is not None:
            argv += ['--layer', p]
    o = _options(argv)
    o.resume_layer = None
    o.output = _Out()
    r = _Runner()
    r.options = o
    r.tests_by_layer_name = {n: object() for n in _NAMES}
    r.errors = []
    FL.Filter(r).global_setup()
    got = sorted(r.tests_by_layer_name)
    pats = [p for p in (p1, p2) if p is not None]
    import re as _re

    def acc(name):
        pos = [p for p in pats if not p.startswith('!')]
        neg = [p[1:] for p in pats if p.startswith('!')]
        return ((not pos or any(_re.search(p, name) for p in pos))
                and not any(_re.search(p, name) for p in neg))
    if u and f:
        uu = ff = False
    else:
        uu, ff = u, f
    if uu:
        exp = [UNIT]
    else:
        exp = [n for n in _NAMES if (not pats or acc(n))]
        if ff and UNIT in exp:
            exp.remove(UNIT)
    LAST = (u, f, p1, p2, got)
    return got == sorted(exp)


def unit_reach(*a):
    unit(*a)
    return LAST[4] == ['w.A']


SPEC = {
    'property': 'C09',
    'encoded': ['zope.testrunner.find.tests_from_suite', 'zope.testrunner.find.name_from_layer',
                'zope.testrunner.options.get_options (post-processing of --all/-u/-f/--layer)',
                'zope.testrunner.filter.Filter.global_setup', 'zope.testrunner.filter.build_filtering_func'],
    'files': ['src/zope/testrunner/find.py', 'src/zope/testrunner/filter.py', 'src/zope/testrunner/options.py'],
    'stubs': ['options.output replaced by a null recorder in unit()'],
    'assumptions': ['levels and --at-level are mathematical integers; with --all, levels are assumed <= sys.maxsize '
                    '(the implementation encodes --all as at_level = sys.maxsize)',
                    'argv integers are injected on the parsed options object (argparse int() parsing is trusted)'],
    'outside': ['nesting deeper than 3 suites (the recursion is uniform in depth)'],
    'harnesses': [
        {'name': 'levels', 'fn': 'levels',
         'params': [('has_t', 'bool'), ('lt', 'int'), ('has_s1', 'bool'), ('l1', 'int'), ('has_s2', 'bool'),
                    ('l2', 'int'), ('at', 'int'), ('use_only', 'bool'), ('only', 'int'), ('all_', 'bool'), ('combo', 'int')],
         'call': 'has_t, lt, has_s1, l1, has_s2, l2, at, use_only, only, all_, combo',
         'bounds': {'quick': '0 <= combo < 5 and (all_ or combo == 0) and lt <= %d and l1 <= %d and l2 <= %d' % ((sys.maxsize,) * 3),
                    'thorough': '0 <= combo < 5 and (all_ or combo == 0) and lt <= %d and l1 <= %d and l2 <= %d' % ((sys.maxsize,) * 3)},
         'reach': 'levels_reach',
         'fidelity': [dict(has_t=True, lt=0, has_s1=True, l1=5, has_s2=False, l2=0, at=1, use_only=False, only=0, all_=False, combo=0),
                      dict(has_t=False, lt=0, has_s1=True, l1=-3, has_s2=True, l2=9, at=0, use_only=True, only=-3, all_=False, combo=0),
                      dict(has_t=False, lt=0, has_s1=False, l1=0, has_s2=True, l2=7, at=2, use_only=False, only=0, all_=True, combo=1)]},
        {'name': 'tree', 'fn': 'tree',
         'params': [('h0', 'bool'), ('v0', 'int'), ('h1', 'bool'), ('v1', 'int'), ('h2', 'bool'), ('v2', 'int'), ('hs', 'bool'), ('vs', 'int'), ('ho', 'bool'), ('vo', 'int'),
                    ('at', 'int'), ('ly1', 'int'), ('lys', 'int'), ('use_only', 'bool'), ('only', 'int')],
         'call': 'h0, v0, h1, v1, h2, v2, hs, vs, ho, vo, at, ly1, lys, use_only, only',
         'bounds': {'quick': '0 <= ly1 <= 2 and 0 <= lys <= 2 and (ly1 == 0 or lys == 0)', 'thorough': '0 <= ly1 <= 2 and 0 <= lys <= 2'},
         'slices': {'quick': ['use_only', 'not use_only and ho', 'not use_only and not ho'],
                    'thorough': ['%s and %s and %s' % (a, b, c) for a in ('use_only', 'not use_only') for b in ('ho', 'not ho') for c in ('hs', 'not hs')]},
         'reach': 'tree_reach',
         'timeout': {'quick': 200, 'thorough': 600},
         'fidelity': [dict(h0=False, v0=0, h1=True, v1=3, h2=False, v2=0, hs=True, vs=1, ho=True, vo=9, at=2, ly1=2, lys=1, use_only=False, only=0),
                      dict(h0=True, v0=-1, h1=False, v1=0, h2=True, v2=5, hs=False, vs=0, ho=True, vo=5, at=0, ly1=0, lys=0, use_only=True, only=5)]},
        {'name': 'layers', 'fn': 'layers',
         'params': [('kt', 'int'), ('k1', 'int'), ('k2', 'int'), ('k3', 'int')],
         'call': 'kt, k1, k2, k3',
         'bounds': {'quick': '0 <= kt <= 2 and 0 <= k1 <= 2 and 0 <= k2 <= 2 and 0 <= k3 <= 2',
                    'thorough': '0 <= kt <= 2 and 0 <= k1 <= 2 and 0 <= k2 <= 2 and 0 <= k3 <= 2'},
         'reach': 'layers_reach',
         'fidelity': [dict(kt=0, k1=2, k2=1, k3=0), dict(kt=1, k1=0, k2=0, k3=2)]},
        {'name': 'unit', 'fn': 'unit',
         'params': [('u', 'bool'), ('f', 'bool'), ('lp', 'int'), ('lp2', 'int')],
         'call': 'u, f, lp, lp2',
         'bounds': {'quick': '0 <= lp < 8 and lp2 == 0', 'thorough': '0 <= lp < 8 and 0 <= lp2 < 8'},
         'reach': 'unit_reach',
         'fidelity': [dict(u=True, f=False, lp=1, lp2=0), dict(u=True, f=True, lp=4, lp2=0), dict(u=False, f=True, lp=5, lp2=0)]},
    ],
}
