"""C04 - exceptions raised by tests and layers are contained.

Real Runner.run_tests / run_layer / setup_layer / tear_down_unneeded /
run_tests() / TestResult.* and the *real* OutputFormatter (formatting is on
the crash path) with real traceback formatting.  Symbolic: outcome kind of
each test (every phase in which an exception can be raised), exception
class, layer setUp / tearDown faults, topology, --buffer, -v count."""
from zope.testrunner import runner as R

from vt import runworld as RW
from vt import world as W
from vt.util import FakeGC, FakeTime, cb, ci, pick, untraced

R.time = FakeTime
R.gc = FakeGC
LAST = None
KINDS = [W.PASS, W.FAIL, W.ERROR, W.ERR_TD, W.SUBFAIL2, W.SETUP_ERR, W.TD_ERR, W.CLEANUP_ERR, W.SYSEXIT, W.SUB_ERR,
         W.XPASS, W.SKIP_BODY, W.XFAIL, W.SWAP_ERR, W.SUBPASS_FAIL]
NK = len(KINDS)


def contained(topo, ka0, ka1, kb0, exc, su_a, su_b, td_a, td_b, buf, v, color):
    global LAST
    W.reset()
    topo = ci(topo, 0, 1)
    ks = [pick(KINDS, k) for k in (ka0, ka1, kb0)]
    exc = ci(exc, 0, 5)
    buf, color = cb(buf), cb(color)
    su_a, su_b, td_a, td_b = ci(su_a, 0, 3), ci(su_b, 0, 3), ci(td_a, 0, 3), ci(td_b, 0, 3)     # 0 fine, 1 raises, 2 raises ... from cause, 3 a C callable raises (no frame of the layer in the traceback)
    v = ci(v, 0, 3)
    with untraced():
        A = W.mk_layer('A', (), su=su_a, td={0: 0, 1: 1, 2: 3, 3: 4}[td_a], hooks='st')
        B = W.mk_layer('B', (A,) if topo else (), su=su_b, td={0: 0, 1: 1, 2: 3, 3: 4}[td_b], hooks='st')
        ta = [W.mk_test('a0', ks[0], exc=exc), W.mk_test('a1', ks[1], exc=exc)]
        tb = [W.mk_test('b0', ks[2], exc=exc)]
    o = RW.options((['-' + 'v' * v] if v else []) + (['--buffer'] if buf else []) + (['-c'] if color else []),
                   out_cls=RW.RecColorFormatter if color else RW.RecFormatter)
    if color:
        o.output.slow_test_threshold = 10.0
    r = RW.make_runner(o, [(B, tb), (A, ta)])
    escaped = None
    # a real run formats tracebacks through the Traceback feature (tb_format): install it like Runner.run does
    from zope.testrunner import tb_format
    feature = tb_format.Traceback(r)
    with RW.Captured() as cap:
        feature.global_setup()
        try:
            r.run_tests()
        except Exception as e:
            with untraced():
                escaped = type(e).__name__
        finally:
            feature.global_teardown()
    with untraced():
        why = oracle(W.TRACE, r, topo, ks, su_a, su_b, td_a, td_b, escaped, cap.text())
    LAST = (topo, tuple(ks), exc, su_a, su_b, td_a, td_b, buf, v, why, color)
    return why is None


def oracle(trace, r, topo, ks, su_a, su_b, td_a, td_b, escaped, text):
    if escaped:
        return 'exception escaped from the run: ' + escaped
    a_ok = not su_a
    b_ok = not su_b and (a_ok or not topo)
    started = [e[2] for e in trace if e[1] == 'setUp']
    exp = (['a0', 'a1'] if a_ok else []) + (['b0'] if b_ok else [])
    if sorted(started) != sorted(exp):
        return 'tests started %r, expected %r' % (started, exp)
    # every layer whose setUp succeeded is torn down exactly once, afterwards
    up = []
    for e in trace:
        if e[1] == 'su':
            name = e[2]
            ok = {'A': a_ok, 'B': not su_b}[name]
            if ok:
                up.append(name)
        elif e[1] == 'td':
            if e[2] not in up:
                return 'tearDown of %s which is not set up' % e[2]
            up.remove(e[2])
    # a tearDown that is a C callable leaves no event: its attempt is observed through the recorded layer failure below
    up = [n for n in up if {'A': td_a, 'B': td_b}[n] != 3]
    if up:
        return 'layers never torn down: %r' % up
    n_summary = len([e for e in trace if e[1] == 'summary'])
    if n_summary != int(a_ok) + int(b_ok):
        return 'summary produced %d times, expected %d' % (n_summary, int(a_ok) + int(b_ok))
    # recorded against that test or layer
    rec = [str(t) for t, _ in r.failures] + [str(t) for t, _ in r.errors]
    for nm, k, ok in (('a0', ks[0], a_ok), ('a1', ks[1], a_ok), ('b0', ks[2], b_ok)):
        n = (W.N_FAIL.get(k, 0) + W.N_ERR.get(k, 0) + (1 if k == W.XPASS else 0)) if ok else 0
        got = len([x for x in rec if x == nm or x.startswith(nm + ' ')])
        if got != n:
            return 'test %s (%s) recorded %d times, expected %d: %r' % (nm, W.KIND_NAMES[k], got, n, rec)
    lay = [x for x in rec if x.startswith('Layer: ')]
    exp_lay = []
    if su_a:
        exp_lay.append('Layer: w.A.setUp')
    if not b_ok:
        exp_lay.append('Layer: w.B.setUp')
    if a_ok and td_a:
        exp_lay.append('Layer: w.A.tearDown')
    if not su_b and (a_ok or not topo) and td_b:
        exp_lay.append('Layer: w.B.tearDown')
    if sorted(lay) != sorted(exp_lay):
        return 'layer failures recorded %r, expected %r' % (lay, exp_lay)
    if r.failed != bool(rec):
        return 'verdict %r with records %r' % (r.failed, rec)
    return None


def contained_reach(*a):
    contained(*a)
    return LAST[9] is None and LAST[7] and W.ERR_TD in LAST[1]


LB_KINDS = [W.PASS, W.FAIL, W.ERROR, W.XPASS, W.SUBFAIL2]


def contained_lb(mode, ka, kb, v):
    """The same containment when layers run in subprocesses: the whole Runner.run() with loop-back children (resumed after a
    layer that cannot be torn down, -j2): failures recorded in the parent and failures reported by children end up in the
    same lists; nothing may abort the run, the parent's layers are torn down and the totals are printed."""
    global LAST
    from vt import fullrun as FR
    mode = pick(['seq', 'nie', 'j2'], mode)
    ka, kb = pick(LB_KINDS, ka), pick(LB_KINDS, kb)
    v = ci(v, 0, 2)
    with untraced():
        world = FR.World({'a0': W.PASS, 'a1': ka, 'b0': kb, 'b1': kb, 'x0': W.PASS}, td={'A': 2} if mode == 'nie' else {},
                         order=['b0', 'a0', 'x0', 'b1', 'a1'])
    res = FR.run(world, mode, argv=['-' + 'v' * v] if v else [])
    with untraced():
        why = None
        ran = sorted({e[2] for e in res.trace if e[1] == 'test'})
        if res.escaped:
            why = 'exception %s escaped from Runner.run' % res.escaped
        elif res.thread_exc:
            why = 'exception in a runner thread: %r' % (res.thread_exc,)
        elif ran != ['a0', 'a1', 'b0', 'b1', 'x0']:
            why = 'tests executed over all processes: %r' % (ran,)
        elif 'Total: ' not in res.text:
            why = 'no totals printed'
        else:
            for pid in sorted({e[0] for e in res.trace}):
                up = []
                for e in res.trace:
                    if e[0] == pid and e[1] == 'su':
                        up.append(e[2])
                    elif e[0] == pid and e[1] == 'td' and e[2] in up:
                        up.remove(e[2])
                if up:
                    why = 'process %d ended with layers never torn down: %r' % (pid, up)
                    break
        if why is None and bool(res.failed) != (W.is_bad(ka) or W.is_bad(kb)):
            why = 'verdict failed=%r' % (res.failed,)
    LAST = (mode, W.KIND_NAMES[ka], W.KIND_NAMES[kb], v, why, len(res.children))
    return why is None


def contained_lb_reach(*a):
    contained_lb(*a)
    return LAST[4] is None and LAST[5] >= 2 and LAST[1] == 'fail' and LAST[2] == 'error'


_P = [('topo', 'int'), ('ka0', 'int'), ('ka1', 'int'), ('kb0', 'int'), ('exc', 'int'), ('su_a', 'int'), ('su_b', 'int'),
      ('td_a', 'int'), ('td_b', 'int'), ('buf', 'bool'), ('v', 'int'), ('color', 'bool')]
_C = ', '.join(n for n, _ in _P)
_B = ('0 <= su_a <= 3 and 0 <= su_b <= 3 and 0 <= td_a <= 3 and 0 <= td_b <= 3 and 0 <= topo <= 1 and 0 <= ka0 < %d and 0 <= ka1 < %d and 0 <= kb0 < %d and 0 <= exc <= 5 and 0 <= v <= 3' % (NK, NK, NK))
_ONE = ' and (ka0 != 0) + (ka1 != 0) + (kb0 != 0) + (su_a != 0) + (su_b != 0) + (td_a != 0) + (td_b != 0) <= 1'
_TWO = ' and (ka0 != 0) + (ka1 != 0) + (kb0 != 0) + (su_a != 0) + (su_b != 0) + (td_a != 0) + (td_b != 0) <= 2'


def _v(**kw):
    v = dict(topo=1, ka0=3, ka1=0, kb0=0, exc=0, su_a=0, su_b=0, td_a=0, td_b=0, buf=True, v=1, color=False)
    v.update(kw)
    return v


SPEC = {
    'property': 'C04',
    'encoded': ['zope.testrunner.runner.Runner.run_tests', 'runner.run_layer', 'runner.setup_layer', 'runner.tear_down_unneeded',
                'runner.handle_layer_failure', 'runner.run_tests', 'runner.TestResult.*', 'tb_format.format_exception / print_exception / _iter_chain (installed like Runner.run does)', 'formatter.OutputFormatter.test_error/'
                'test_failure/print_traceback/format_traceback/print_std_streams/error/summary', 'unittest.TestCase.run (stdlib, traced)'],
    'files': ['src/zope/testrunner/runner.py', 'src/zope/testrunner/formatter.py', 'src/zope/testrunner/tb_format.py'],
    'stubs': ['runner.time, runner.gc', 'sys.stdout/sys.stderr -> TextIOWrapper objects over one byte buffer'],
    'assumptions': ['exception classes: ValueError, KeyError, an AssertionError subclass, a custom Exception subclass, a real SyntaxError (location line without ", in"), an exception whose __str__ raises; SystemExit inside tests'],
    'outside': ['MemoryError / KeyboardInterrupt (deliberately propagated by the runner)', '-D/--pdb', 'transport faults of children (C02/C07 worlds)',
                'more than 3 tests in 2 layers'],
    'harnesses': [
        {'name': 'contained', 'fn': 'contained', 'params': _P, 'call': _C,
         'bounds': {'quick': _B + _ONE + ' and (v == 1 or exc == 0) and (not color or (v == 1 and (exc == 0 or exc == 4)))', 'thorough': _B + _TWO + ' and (v == 1 or exc == 0) and (((ka0 != 0) + (ka1 != 0) + (kb0 != 0) + (su_a != 0) + (su_b != 0) + (td_a != 0) + (td_b != 0) <= 1) or (v == 1 and not color and exc == 0))'},
         'slices': {'quick': ['topo == %d and %s and v == %d and %s and %s' % (t, b, v, c, e) for t in (0, 1) for b in ('buf', 'not buf') for v in range(4) for c in ('color', 'not color')
                              for e in (('exc <= 1', '(exc == 2 or exc == 3)', 'exc >= 4') if v == 1 and c == 'not color' else ('True',)) if c == 'not color' or v == 1],
                    'thorough': ['topo == %d and %s and v == %d and ka0 == %d' % (t, b, v, k) for t in (0, 1) for b in ('buf', 'not buf') for v in range(4) for k in range(NK)]},
         'reach': 'contained_reach', 'reach_bounds': {'quick': _B + _ONE + ' and v == 1 and exc == 0 and topo == 1',
                                                      'thorough': _B + _ONE + ' and v == 1 and exc == 0 and topo == 1'},
         'timeout': {'quick': 240, 'thorough': 850},
         'fidelity': [_v(), _v(ka0=4, v=3), _v(topo=0, ka0=0, su_a=1, kb0=8, buf=False, v=0), _v(ka0=0, su_b=2), _v(ka0=0, td_a=2, v=2), _v(ka0=2, exc=4, color=True), _v(ka1=13, exc=5), _v(ka0=0, su_a=3), _v(ka0=0, td_b=3, topo=0)]},
        {'name': 'contained_lb', 'fn': 'contained_lb', 'params': [('mode', 'int'), ('ka', 'int'), ('kb', 'int'), ('v', 'int')], 'call': 'mode, ka, kb, v',
         'bounds': {'quick': '0 <= mode <= 2 and 0 <= ka < %d and 0 <= kb < %d and 0 <= v <= 2 and ka <= 2 and kb <= 2 and v <= 1' % (len(LB_KINDS), len(LB_KINDS)),
                    'thorough': '0 <= mode <= 2 and 0 <= ka < %d and 0 <= kb < %d and 0 <= v <= 2' % (len(LB_KINDS), len(LB_KINDS))},
         'slices': {'quick': ['mode == %d' % m for m in range(3)], 'thorough': ['mode == %d and v == %d' % (m, vv) for m in range(3) for vv in range(3)]},
         'reach': 'contained_lb_reach', 'reach_bounds': {'quick': 'mode == 1 and ka == 1 and kb == 2 and v == 0', 'thorough': 'mode == 1 and ka == 1 and kb == 2 and v == 0'},
         'timeout': {'quick': 300, 'thorough': 850},
         'fidelity': [dict(mode=1, ka=1, kb=2, v=1), dict(mode=2, ka=3, kb=4, v=0), dict(mode=0, ka=0, kb=0, v=2)]},
    ],
}
