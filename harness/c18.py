"""C18 - interpreter-global state changed for a run is restored afterwards.

state(): the whole real Runner.run() (try/finally, feature life-cycle in
configure order, _enabled_warnings) with a symbolic subset of the options that
change global state and a symbolic way the test phase ends; a snapshot of the
state before the run is compared with the state after it, whether run()
returns or raises.
Symbolic: --gc (0..3 values), -G flag, --coverage, --profile, --buffer, -x,
-D, the warnings argument, end kind (pass, failing test, exception from a
layer's testSetUp / testTearDown, KeyboardInterrupt in a test / in a layer
setUp, SystemExit in a layer hook), position of the event."""
import gc
import traceback
import types
import unittest
import warnings

from zope.testrunner import coverage as CV
from zope.testrunner import profiling as PR
from zope.testrunner import runner as R

from vt import loopback as LB
from vt import runworld as RW
from vt import world as W
from vt.util import cb, ci, pick, untraced

LAST = None
R.TestResult._exc_info_to_string = lambda self, err, test: 'traceback'
_ORIG_FMT = traceback.format_exception
_ORIG_PRINT = traceback.print_exception
_BASE_THRESHOLD = (700, 10, 10)
_BASE_FILTERS = list(warnings.filters)


# ---- trace / profile hooks are recording fakes (CrossHair owns the real ones)
class FakeSys:
    def __init__(self):
        self.trace_calls = []
        self.current = None
        self.settrace = self._settrace
        self.platform = 'linux'

    def _settrace(self, fn):
        self.trace_calls.append('set' if fn is not None else 'clear')
        self.current = fn

    def __getattr__(self, name):
        import sys
        return getattr(sys, name)


class FakeThreading:
    def __init__(self):
        self.current = None

    def settrace(self, fn):
        self.current = fn


class FakeProfiler:
    instances = []

    def __init__(self, filepath):
        self.enabled = 0
        self.events = []
        FakeProfiler.instances.append(self)

    def enable(self):
        self.enabled += 1
        self.events.append('enable')

    def disable(self):
        self.enabled -= 1
        self.events.append('disable')

    def finish(self):
        self.events.append('finish')

    fault = False

    def loadStats(self, g):
        if FakeProfiler.fault:      # no statistics file found (e.g. a test changed the working directory): the real loader returns None
            return None
        return types.SimpleNamespace(sort_stats=lambda *a: None, print_stats=lambda *a: None)


class NullResults:
    def write_results(self, **kw):
        pass


ENDS = ['pass', 'fail', 'tsu_raise', 'ttd_raise', 'kbd_test', 'kbd_layer_setup', 'sysexit_tsu', 'kbd_ttd']
WARN = [None, 'error', 'ignore', 'default', 'always']


def install_fakes():
    fs, ft = FakeSys(), FakeThreading()
    CV.sys = fs
    CV.osettrace = fs._settrace
    CV.threading = ft
    CV.TestTrace.results = lambda self: NullResults()
    del FakeProfiler.instances[:]
    PR.available_profilers['cProfile'] = FakeProfiler
    PR.tempfile = types.SimpleNamespace(mkstemp=lambda *a, **k: (99, '/prof/x.prof'))
    PR.glob = types.SimpleNamespace(glob=lambda p: [])
    import os
    PR.os = types.SimpleNamespace(path=os.path, close=lambda h: None, unlink=lambda p: None)
    return fs, ft


def baseline():
    gc.set_threshold(*_BASE_THRESHOLD)
    gc.set_debug(0)
    traceback.format_exception = _ORIG_FMT
    traceback.print_exception = _ORIG_PRINT
    warnings.filters[:] = _BASE_FILTERS


def snapshot(fs, ft):
    import sys
    return {
        'gc.threshold': gc.get_threshold(), 'gc.debug': gc.get_debug(),
        'traceback.format_exception': getattr(traceback.format_exception, '__name__', '?') + '@' + getattr(traceback.format_exception, '__module__', '?'),
        'traceback.print_exception': getattr(traceback.print_exception, '__name__', '?') + '@' + getattr(traceback.print_exception, '__module__', '?'),
        'trace hook': fs.current is None, 'thread trace hook': ft.current is None,
        'sys.settrace binding': fs.settrace == fs._settrace,
        'profilers enabled': sum(p.enabled for p in FakeProfiler.instances),
        'warnings.filters': [tuple(map(str, f)) for f in warnings.filters],
        'sys.stdout': id(sys.stdout), 'sys.stderr': id(sys.stderr),
    }


def _foreign_format(*a, **k):
    return ['foreign formatter\n']


def _foreign_print(*a, **k):
    pass


def state(ngc, G, cov, prof, buf, x, D, warn, end, pos, foreign=False, pfault=False, dp=False):
    global LAST
    ngc = ci(ngc, 0, 3)
    dp = cb(dp)          # the same --path directory is given twice (wrapper-script defaults plus command line)
    pfault = cb(pfault)          # a fault while the features are shut down: the profiler finds no statistics, its global_teardown raises
    G, cov, prof, buf, x, D, foreign = map(cb, (G, cov, prof, buf, x, D, foreign))
    warn = pick(WARN, warn)
    end = pick(ENDS, end)
    pos = ci(pos, 0, 1)
    argv = []
    for v in [123, 7, 5][:ngc]:
        argv += ['--gc', str(v)]
    if G:
        argv += ['-G', 'DEBUG_UNCOLLECTABLE']
    if cov:
        argv += ['--coverage', 'covdir']
    if prof:
        argv += ['--profile', 'cProfile']
    if buf:
        argv += ['--buffer']
    if x:
        argv += ['-x']
    if D:
        argv += ['-D']
    if dp:
        argv += ['--path', '/verif-no-such-dir', '--path', '/verif-no-such-dir']
    with untraced():
        fs, ft = install_fakes()
        FakeProfiler.fault = pfault
        baseline()
        if foreign:        # the embedding program (or an enclosing run) changed the state before this run: its own traceback
            # formatting, garbage-collector debug flags and thresholds - "what they were before the run" is not the default
            traceback.format_exception = _foreign_format
            traceback.print_exception = _foreign_print
            gc.set_debug(gc.DEBUG_UNCOLLECTABLE)
            gc.set_threshold(701, 11, 11)
        calls = [0]

        def boom_at(which, exc):
            def hook(self=None):
                calls[0] += 1
                if calls[0] == pos + 1:
                    raise exc
            return hook
        A = W.mk_layer('A', (), hooks='stST')
        if end == 'tsu_raise':
            A.testSetUp = classmethod(boom_at('tsu', W.Boom('tsu')))
        elif end == 'sysexit_tsu':
            A.testSetUp = classmethod(boom_at('tsu', SystemExit(3)))
        elif end == 'ttd_raise':
            A.testTearDown = classmethod(boom_at('ttd', W.Boom('ttd')))
        elif end == 'kbd_ttd':
            A.testTearDown = classmethod(boom_at('ttd', KeyboardInterrupt()))
        elif end == 'kbd_layer_setup':
            A.setUp = classmethod(boom_at('su', KeyboardInterrupt()))

        def body():
            raise KeyboardInterrupt
        tests = []
        for i in range(2):
            k = W.PASS
            b = None
            if end == 'fail' and i == pos:
                k = W.FAIL
            if end == 'kbd_test' and i == pos:
                b = body
            tests.append(W.mk_test('a%d' % i, k, layer=A, body=b, out=(lambda n: print('out', n)) if buf else None))

        def suites():
            return [unittest.TestSuite(tests)]
    LB.install()
    LB.reset(suites)
    W.reset()
    raised = None
    with RW.Captured() as cap:
        before = snapshot(fs, ft)
        r = R.Runner(args=['t'] + argv, found_suites=suites(), script_parts=['t'], warnings=warn)
        try:
            r.run()
        except BaseException as e:        # noqa - which exception aborts the run is not the subject
            if type(e).__name__ in ('IgnoreAttempt', 'UnexploredPath', 'NotDeterministic', 'CrossHairInternal', 'PathTimeout'):
                raise
            raised = type(e).__name__
        after = snapshot(fs, ft)
        import sys as _sys
        while '/verif-no-such-dir' in _sys.path:
            _sys.path.remove('/verif-no-such-dir')
    with untraced():
        diff = sorted(k for k in before if before[k] != after[k])
        why = None
        if diff:
            why = 'not restored after the run (%s): %s' % ('raised ' + raised if raised else 'returned',
                                                          '; '.join('%s %r -> %r' % (k, before[k], after[k]) for k in diff))
        started = any(e[1] == 'test' for e in W.TRACE)
        baseline()
    LAST = (tuple(argv), warn, end, pos, raised, why, started, tuple(fs.trace_calls), tuple(tuple(p.events) for p in FakeProfiler.instances), foreign, pfault)
    return why is None


def state_reach(*a):
    state(*a)
    return LAST[5] is None and LAST[4] == 'KeyboardInterrupt' and len(LAST[7]) == 2 and LAST[8] and LAST[8][0][:1] == ('enable',)


_P = [('ngc', 'int'), ('G', 'bool'), ('cov', 'bool'), ('prof', 'bool'), ('buf', 'bool'), ('x', 'bool'), ('D', 'bool'), ('warn', 'int'), ('end', 'int'), ('pos', 'int'), ('foreign', 'bool'), ('pfault', 'bool'), ('dp', 'bool')]
_C = ', '.join(n for n, _ in _P)
_B = '(not pfault or prof) and 0 <= ngc <= 3 and 0 <= warn < %d and 0 <= end < %d and 0 <= pos <= 1 and (not D or end != 1)' % (len(WARN), len(ENDS))
_Q = _B + ' and (not dp or (not foreign and not pfault and warn == 0 and (ngc == 1 or G) and cov + prof + buf + x + D == 0)) and (not pfault or (not foreign and warn == 0 and ngc == 0)) and warn <= 2 and (G + cov + prof + buf + x + D <= 2) and (not foreign or (warn == 0 and ngc <= 1 and (ngc != 0) + G + cov + prof + buf + x + D <= 1))'
_T = _B


def _v(**kw):
    v = dict(ngc=1, G=True, cov=True, prof=True, buf=True, x=False, D=False, warn=0, end=0, pos=0, foreign=False, pfault=False, dp=False)
    v.update(kw)
    return v


SPEC = {
    'property': 'C18',
    'encoded': ['zope.testrunner.runner.Runner.run (try/finally, feature life-cycle)', 'Runner.configure (feature order)', 'Runner._enabled_warnings',
                'garbagecollection.Threshold / Debug', 'tb_format.Traceback', 'coverage.Coverage / TestTrace.start / stop', 'profiling.Profiling',
                'runner.TestResult (std stream buffering: startTest / stopTest / add*)', 'runner.run_tests (normal and post-mortem loops)', 'runner.run_layer / setup_layer'],
    'files': ['src/zope/testrunner/runner.py', 'src/zope/testrunner/garbagecollection.py', 'src/zope/testrunner/tb_format.py',
              'src/zope/testrunner/coverage.py', 'src/zope/testrunner/profiling.py', 'src/zope/testrunner/feature.py'],
    'stubs': ['coverage.sys / coverage.threading / coverage.osettrace -> recording fakes (CrossHair itself lives on the real trace hook); TestTrace.results -> null',
              'profiling.available_profilers[cProfile] -> recording fake; profiling.tempfile / glob / os -> in-memory', 'gc.set_threshold / gc.set_debug are real',
              'runner.time, runner.gc (collector only), get_options untraced on concrete argv'],
    'assumptions': ['which exception leaves run() is not the subject; the harness catches whatever is raised and compares the snapshots'],
    'outside': ['-D with a failing test (pdb interaction)', 'children (they are separate processes)', 'real trace / profile hooks'],
    'harnesses': [
        {'name': 'state', 'fn': 'state', 'params': _P, 'call': _C,
         'bounds': {'quick': _Q, 'thorough': _T},
         'slices': {'quick': ['end == %d and pos == %d' % (e, p) for e in range(len(ENDS)) for p in range(2)],
                    'thorough': ['end == %d and pos == %d and warn == %d and %s' % (e, p, w_, d) for e in range(len(ENDS)) for p in range(2) for w_ in range(len(WARN))
                                 for d in ('D', 'not D')]},
         'reach': 'state_reach', 'reach_bounds': {'quick': _B + ' and end == 4 and ngc == 1 and G and cov and prof and not D and warn == 0',
                                                  'thorough': _B + ' and end == 4 and ngc == 1 and G and cov and prof and not D and warn == 0'},
         'timeout': {'quick': 400, 'thorough': 1700},
         'fidelity': [_v(), _v(end=4, pos=1), _v(end=2, D=True, ngc=3, warn=1), _v(end=3, x=True, warn=3, cov=False), _v(end=5, buf=False, prof=False), _v(foreign=True, end=1), _v(foreign=True, end=4, pos=1), _v(foreign=True, G=True, cov=False, prof=False, buf=False, ngc=0), _v(foreign=True, ngc=2, G=False, cov=False, prof=False, buf=False, end=4), _v(pfault=True), _v(pfault=True, end=4, G=False, buf=False, ngc=0), _v(dp=True, cov=False, prof=False, buf=False), _v(dp=True, end=4, ngc=2)]},
    ],
}
