"""Triage helper (not a check): runs the harnesses of one property natively on the fidelity vectors and on random
argument vectors that satisfy the tier's bounds, and prints the vectors for which the harness returns False.  Used with
./mutrun to see quickly whether a seeded change is inside the space a check explores before spending solver time.

usage: python -m vt.natsweep <Cxx> [--tier quick] [--n 300] [--only h1,h2] [--seed 0]"""
import importlib
import random
import sys


def main():
    a = sys.argv[1:]
    prop = a[0]
    tier = a[a.index('--tier') + 1] if '--tier' in a else 'quick'
    n = int(a[a.index('--n') + 1]) if '--n' in a else 300
    only = a[a.index('--only') + 1].split(',') if '--only' in a else None
    rnd = random.Random(int(a[a.index('--seed') + 1]) if '--seed' in a else 0)
    H = importlib.import_module('harness.' + prop.lower())
    total_bad = 0
    for h in H.SPEC['harnesses']:
        if only and h['name'] not in only:
            continue
        if tier not in h['bounds']:
            continue
        b = h['bounds'][tier]
        b = [b] if isinstance(b, str) else list(b)
        pre = ' and '.join('(%s)' % x for x in b)
        fn = getattr(H, h['fn'])
        vecs = [dict(v) for v in h.get('fidelity', [])]
        tries = 0
        while len(vecs) < n + len(h.get('fidelity', [])) and tries < n * 400:
            tries += 1
            v = {}
            for name, ty in h['params']:
                v[name] = rnd.random() < 0.5 if ty == 'bool' else rnd.choice([0, 0, 1, 1, 2, 2, 3, 4, 5, 6, 7, 8, 9, 10, 11, 12, 13, 14, 15, 16, 23, 40, 77, 119, -1])
            try:
                if eval(pre, {}, dict(v)):
                    vecs.append(v)
            except Exception:
                pass
        bad = 0
        for v in vecs:
            args = eval('(lambda *a: list(a))(%s)' % h['call'], dict(v))
            try:
                ok = fn(*args)
                exc = None
            except Exception as e:          # noqa
                ok, exc = False, repr(e)[:200]
            if not ok:
                bad += 1
                if bad <= 3:
                    print('  %s %r -> %s' % (h['name'], v, exc or repr(getattr(H, 'LAST', None))[:400]))
        print('%s %s: %d vectors, %d failing' % (prop, h['name'], len(vecs), bad))
        total_bad += bad
    print('TOTAL failing', total_bad)


if __name__ == '__main__':
    main()
