"""Driver: turns a property's harness SPEC into CrossHair jobs, runs them on
all cores, replays counterexamples natively, applies known findings and
writes evidence/<id>.json.

SPEC format (module attribute of harness/cXX.py)::

    SPEC = {
      'property': 'C20',
      'encoded': ['zope.testrunner.digraph.DiGraph.sccs', ...],
      'files': ['src/zope/testrunner/digraph.py'],
      'stubs': [...], 'assumptions': [...], 'outside': [...],
      'harnesses': [ {
          'name': 'scc3',                 # unique per property
          'fn': 'scc',                    # function in the harness module
          'params': [('trivial','bool'), ...],   # symbolic parameters
          'call': '3, trivial, ...',      # how the wrapper calls fn
          'bounds': {'quick': 'pre-expr', 'thorough': 'pre-expr'},
          'slices': {'quick': ['expr', ...], 'thorough': [...]},   # optional
          'reach': 'fn_name' ,            # liveness twin (returns witness bool)
          'fidelity': [ {param: value}, ... ],
          'timeout': {'quick': 100, 'thorough': 800},
      } ] }

Exit codes: 0 held / 1 violation (replayed) / 2 harness error.
"""
import ast
import hashlib
import importlib
import json
import os
import shutil
import subprocess
import sys
import tempfile
import threading
import time
from concurrent.futures import ThreadPoolExecutor, as_completed

VERIF = os.path.dirname(os.path.dirname(os.path.abspath(__file__)))
REPO = os.environ.get('VERIF_REPO', '/repo')
PY = os.path.join(VERIF, '.venv', 'bin', 'python')
NPROC = int(os.environ.get('VERIF_NPROC', '16'))
OUT = os.environ.get('VERIF_OUT') or VERIF     # where evidence/ and replays/ are written (mutant runs use a scratch dir)
# VERIF_FAILFAST=1 (used by ./muttest only): stop exploring as soon as one counterexample has been replayed natively.
# The registered quick/thorough commands never set it: on the unchanged tree every slice is always explored.
FAILFAST = bool(os.environ.get('VERIF_FAILFAST'))
_STOP = threading.Event()
_PROCS = set()
_PLOCK = threading.Lock()

WRAPPER = '''\
import {hmod} as H
import vt.rec as _R


def w({sig}) -> bool:
    """
{pres}
    post: {post}
    """
    _R.fresh()
    try:
        _r = H.{fn}({call})
    except Exception as _e:
        _R.record(H, None, _e, {fid})
        raise
    _R.record(H, _r, None, {fid})
    return _r
'''


def gen_wrapper(workdir, wname, hmod, fn, params, call, pres, post, fid=False):
    sig = ', '.join('%s: %s' % (n, t) for n, t in params)
    pres_txt = '\n'.join('    pre: ' + p for p in pres if p)
    src = WRAPPER.format(hmod=hmod, sig=sig, pres=pres_txt, post=post, fn=fn,
                         call=call, fid=fid)
    with open(os.path.join(workdir, wname + '.py'), 'w') as f:
        f.write(src)
    return src


def known_findings():
    p = os.path.join(VERIF, 'known_findings.json')
    if not os.path.exists(p):
        return []
    return json.load(open(p))


def parse_call(message):
    """Extract (args, kwargs) from CrossHair's 'when calling w(...)' text."""
    i = message.find('when calling ')
    if i < 0:
        return None
    text = message[i + len('when calling '):]
    cands = [text]
    j = len(text)
    while True:
        j = text.rfind(' (which returns ', 0, j)
        if j < 0:
            break
        cands.append(text[:j])
    for c in sorted(cands, key=len):
        k = c.find(' with ')
        for cc in ([c] + ([c[:k]] if k > 0 else [])):
            try:
                node = ast.parse(cc.strip(), mode='eval').body
            except SyntaxError:
                continue
            if not isinstance(node, ast.Call):
                continue
            try:
                a = [ast.literal_eval(x) for x in node.args]
                kw = {x.arg: ast.literal_eval(x.value) for x in node.keywords}
            except Exception:
                continue
            return a, kw
    return None


def native_run(hmod, fn, call_args, timeout=600):
    """Run harness fn natively in a fresh interpreter; -> dict(ok, result, last, exc)."""
    code = (
        "import sys, json, importlib, os\n"
        "sys.path.insert(0, %r)\n"
        "real = os.fdopen(os.dup(1), 'w'); sys.stdout = open(os.devnull, 'w')\n"
        "H = importlib.import_module(%r)\n"
        "args = json.loads(sys.argv[1])\n"
        "out = {}\n"
        "try:\n"
        "    r = getattr(H, %r)(*args)\n"
        "    out['result'] = bool(r); out['ok'] = bool(r)\n"
        "except Exception as e:\n"
        "    import traceback\n"
        "    out['ok'] = False; out['exc'] = traceback.format_exc()[-1500:]\n"
        "out['last'] = repr(getattr(H, 'LAST', None))[:4000]\n"
        "real.write(json.dumps(out)); real.flush()\n" % (VERIF, hmod, fn))
    p = subprocess.run([PY, '-c', code, json.dumps(call_args)],
                       capture_output=True, text=True, timeout=timeout,
                       env=child_env())
    try:
        return json.loads(p.stdout.strip().splitlines()[-1])
    except Exception:
        return {'ok': None, 'crash': (p.stdout + p.stderr)[-2000:]}


def child_env(hashseed=None):
    env = dict(os.environ)
    env['PYTHONPATH'] = VERIF
    env['PYTHONHASHSEED'] = str(hashseed) if hashseed is not None else env.get('VERIF_HASHSEED', '0')
    env['PYTHONDONTWRITEBYTECODE'] = '1'
    env['PYTHONWARNINGS'] = 'ignore'
    return env


DEADLINE = [None]
_FINISHED = threading.Event()
HARDSTOP = threading.Event()          # set by the watchdog when the thorough tier's hard limit (budget + grace) is reached


def run_job(job):
    if _STOP.is_set():
        return {'id': job['id'], 'kind': job['kind'], 'skipped': True, 'job': job}
    if DEADLINE[0] is not None and job['kind'] == 'verify' and time.time() > DEADLINE[0]:
        return {'id': job['id'], 'kind': job['kind'], 'not_run': True, 'job': job}
    jf = os.path.join(job['workdir'], job['id'] + '.job.json')
    json.dump(job, open(jf, 'w'))
    t0 = time.time()
    p = subprocess.Popen([PY, '-m', 'vt.worker', jf], stdout=subprocess.PIPE, stderr=subprocess.PIPE,
                         text=True, env=child_env(job.get('hashseed')), cwd=VERIF)
    with _PLOCK:
        _PROCS.add(p)
    try:
        out, err = p.communicate(timeout=job['timeout'] + 120)
        lines = [ln for ln in out.splitlines() if ln.startswith('{')]
        if lines:
            res = json.loads(lines[-1])
        elif _STOP.is_set():
            res = {'id': job['id'], 'kind': job['kind'], 'skipped': True}
        elif HARDSTOP.is_set() and job['kind'] == 'verify':
            res = {'id': job['id'], 'kind': job['kind'], 'not_run': True, 'killed_at_limit': True}
        else:
            res = {'id': job['id'], 'kind': job['kind'],
                   'crash': 'no output; stderr: ' + err[-2000:]}
    except subprocess.TimeoutExpired:
        p.kill()
        p.communicate()
        res = {'id': job['id'], 'kind': job['kind'], 'crash': 'hard timeout'}
    finally:
        with _PLOCK:
            _PROCS.discard(p)
    res['job'] = job
    res.setdefault('wall_s', round(time.time() - t0, 2))
    return res


def stop_all():
    _STOP.set()
    with _PLOCK:
        for p in list(_PROCS):
            try:
                p.kill()
            except OSError:
                pass


def counterexample_of(res, h):
    """-> (vec, call_args, message) parsed from a refuted verify job, or None."""
    msg = next(m for m in res['messages'] if m['state'] in ('POST_FAIL', 'EXEC_ERR', 'POST_ERR'))
    parsed = parse_call(msg['message'])
    if parsed is None:
        return None
    a, kw = parsed
    names = [n for n, _t in h['params']]
    vec = dict(zip(names, a))
    vec.update(kw)
    call_args = eval('(lambda *a: list(a))(%s)' % h['call'], dict(vec))
    return vec, call_args, msg['message']


def classify(res):
    """-> 'confirmed' | 'refuted' | 'unknown' | 'crash'"""
    if res.get('skipped'):
        return 'skipped'
    if res.get('not_run'):
        return 'not_run'
    if 'crash' in res:
        return 'crash'
    states = [m['state'] for m in res.get('messages', [])]
    if any(s in ('POST_FAIL', 'EXEC_ERR', 'POST_ERR') for s in states):
        return 'refuted'
    if states and all(s == 'CONFIRMED' for s in states):
        return 'confirmed'
    if any(s in ('SYNTAX_ERR', 'IMPORT_ERR') for s in states):
        return 'crash'
    return 'unknown'


def file_hashes(files):
    out = {}
    for f in files:
        p = os.path.join(REPO, f)
        try:
            out[f] = hashlib.sha256(open(p, 'rb').read()).hexdigest()[:16]
        except OSError:
            out[f] = 'missing'
    return out


def check_property(prop, tier='quick', only=None, verbose=True):
    t_start = time.time()
    seed = int(os.environ.get('VERIF_SEED', '0') or 0)
    hmodname = 'harness.' + prop.lower()
    sys.path.insert(0, VERIF)
    H = importlib.import_module(hmodname)
    SPEC = H.SPEC
    assert SPEC['property'] == prop
    kf = [k for k in known_findings() if isinstance(k, dict) and k['property'] == prop]
    workdir = tempfile.mkdtemp(prefix='verif-%s-' % prop.lower())
    jobs = []
    try:
        for h in SPEC['harnesses']:
            if only and h['name'] not in only:
                continue
            if tier not in h['bounds']:
                continue
            bounds = h['bounds'][tier]
            bounds = [bounds] if isinstance(bounds, str) else list(bounds)
            regions = [k for k in kf if k['harness'] == h['name']]
            excl = ['not (%s)' % k['region'] for k in regions]
            slices = (h.get('slices') or {}).get(tier) or ['']
            tmo = h.get('timeout', {}).get(tier, 120 if tier == 'quick' else 850)
            for si, sl in enumerate(slices):
              for hs in (h.get('hashseeds') or [None]):
                jid = '%s_v%d' % (h['name'], si) + ('' if hs is None else '_hs%d' % hs)
                gen_wrapper(workdir, 'w_' + jid, hmodname, h['fn'], h['params'],
                            h['call'], bounds + [sl] + excl, '_')
                jobs.append(dict(id=jid, kind='verify', harness=h['name'],
                                 slice=sl, wmod='w_' + jid, hmod=hmodname,
                                 workdir=workdir, verif=VERIF, timeout=tmo,
                                 path_timeout=h.get('path_timeout', 120),
                                 pres=bounds + [sl] + excl, hashseed=hs, pair='%s_v%d' % (h['name'], si)))
            if h.get('reach'):
                jid = '%s_reach' % h['name']
                rb = h.get('reach_bounds', {}).get(tier, bounds)
                rb = [rb] if isinstance(rb, str) else list(rb)
                gen_wrapper(workdir, 'w_' + jid, hmodname, h['reach'], h['params'],
                            h['call'], rb + excl, 'not _')
                jobs.append(dict(id=jid, kind='reach', harness=h['name'],
                                 wmod='w_' + jid, hmod=hmodname, workdir=workdir,
                                 verif=VERIF, timeout=tmo, path_timeout=120,
                                 pres=rb + excl))
            fids = list(h.get('fidelity', []))
            for fi, vec in enumerate(fids):
                jid = '%s_fid%d' % (h['name'], fi)
                pins = ' and '.join('%s == %r' % (n, vec[n]) for n, _t in h['params'])
                gen_wrapper(workdir, 'w_' + jid, hmodname, h['fn'], h['params'],
                            h['call'], [pins], 'True', fid=True)
                call_args = eval('(lambda *a: list(a))(%s)' % h['call'], dict(vec))
                jobs.append(dict(id=jid, kind='fidelity', harness=h['name'],
                                 wmod='w_' + jid, hmod=hmodname, hfn=h['fn'],
                                 call_args=call_args, vec=vec, workdir=workdir,
                                 verif=VERIF, timeout=120, path_timeout=120))
        # thorough tier: a wall-clock budget (VERIF_BUDGET_S, default 300 s; 0 = unlimited) after which no further slice is
        # started; slices that were not started are reported as not explored (never as confirmed).  The twins run first, the
        # slices of the harnesses are interleaved so that every harness gets its share of the budget.
        budget = float(os.environ.get('VERIF_BUDGET_S', '0' if tier == 'quick' else '300') or 0)
        DEADLINE[0] = (t_start + budget) if budget > 0 else None
        if DEADLINE[0] is None:
            jobs.sort(key=lambda j: (j['kind'] != 'verify', -j['timeout']))          # longest first
        else:
            rank = {}
            for j in jobs:
                rank[j['id']] = sum(1 for k in jobs if k['harness'] == j['harness'] and k['kind'] == 'verify' and jobs.index(k) < jobs.index(j))
            jobs.sort(key=lambda j: (j['kind'] == 'verify', rank[j['id']] if j['kind'] == 'verify' else 0))
        hmap0 = {h['name']: h for h in SPEC['harnesses']}
        if DEADLINE[0] is not None:
            # hard limit: slices still running half a budget after the deadline are stopped and reported as not explored
            grace = float(os.environ.get('VERIF_GRACE_S', budget / 2.0))

            def watchdog():
                while time.time() < DEADLINE[0] + grace:
                    time.sleep(1.0)
                    if _FINISHED.is_set():
                        return
                HARDSTOP.set()
                with _PLOCK:
                    for p in list(_PROCS):
                        try:
                            p.kill()
                        except OSError:
                            pass
            _FINISHED.clear()
            threading.Thread(target=watchdog, daemon=True).start()
        with ThreadPoolExecutor(NPROC) as ex:
            futs = [ex.submit(run_job, j) for j in jobs]
            if FAILFAST:
                for f in as_completed(futs):
                    r = f.result()
                    if r['job']['kind'] == 'verify' and classify(r) == 'refuted' and not _STOP.is_set():
                        ce = counterexample_of(r, hmap0[r['job']['harness']])
                        if ce is not None:
                            r['_native'] = native_run(hmodname, hmap0[r['job']['harness']]['fn'], ce[1])
                            if r['_native'].get('ok') is False:
                                stop_all()
            results = [f.result() for f in futs]
    finally:
        _FINISHED.set()
        shutil.rmtree(workdir, ignore_errors=True)

    hmap = {h['name']: h for h in SPEC['harnesses']}
    violations, errors, inconclusive, lines = [], [], [], []
    not_explored = []
    per_job = []
    native_execs = 0
    for r in results:
        j = r['job']
        h = hmap[j['harness']]
        c = classify(r)
        rec = dict(id=j['id'], kind=j['kind'], verdict=c, paths=r.get('paths', 0),
                   queries=r.get('queries', 0), solver_s=r.get('solver_s', 0.0),
                   wall_s=r.get('wall_s'), n_summaries=r.get('n_summaries', 0),
                   pres=j.get('pres'))
        per_job.append(rec)
        if c == 'skipped':
            continue
        if c == 'not_run':
            not_explored.append(j['id'])
            continue
        if c == 'crash':
            errors.append('%s: worker crash: %s' % (j['id'], (r.get('crash') or str(r.get('messages')))[-1500:]))
            continue
        if j['kind'] == 'verify':
            if c == 'refuted':
                ce = counterexample_of(r, h)
                rec['message'] = next(m for m in r['messages'] if m['state'] in ('POST_FAIL', 'EXEC_ERR', 'POST_ERR'))['message'][:600]
                if ce is None:
                    errors.append('%s: cannot parse counterexample: %s' % (j['id'], rec['message'][:400]))
                    continue
                vec, call_args, message = ce
                nat = r.get('_native') or native_run(hmodname, h['fn'], call_args)
                native_execs += 1
                rec['counterexample'] = vec
                rec['native'] = nat
                if nat.get('ok') is False:
                    rp = write_replay(prop, hmodname, h, vec, call_args, nat, message)
                    violations.append((h['name'], vec, rp))
                else:
                    errors.append('%s: counterexample %r does not reproduce natively (%r)' % (j['id'], vec, nat))
            elif c == 'unknown':
                inconclusive.append(j['id'])
                rec['message'] = '; '.join(m['state'] + ' ' + m['message'][:200] for m in r['messages'])
        elif j['kind'] == 'reach':
            if c == 'confirmed':
                errors.append('%s: reachability twin confirmed - harness is vacuous' % j['id'])
            elif c != 'refuted':
                inconclusive.append(j['id'])
        elif j['kind'] == 'fidelity':
            native_execs += 1
            rec['vec'] = j['vec']
            if r.get('native') != r.get('traced'):
                # The pinned vector behaves differently natively and under tracing.  If the *native* run (the real semantics)
                # violates the property, that is a violation of the code under test which CrossHair's model of Python cannot
                # see (e.g. it models sets by equality, so a __hash__/__eq__ inconsistency never shows while tracing): it is
                # re-executed in a fresh interpreter and reported like any replayed counterexample, marked as found by the
                # fidelity twin.  Every other mismatch is a harness error.
                if (r.get('native') or [None])[0] == 'False':
                    nat = native_run(hmodname, h['fn'], j['call_args'])
                    native_execs += 1
                    if nat.get('ok') is False:
                        rp = write_replay(prop, hmodname, h, j['vec'], j['call_args'], nat,
                                          'found by the fidelity twin: the native execution of this pinned vector violates the property, the traced one '
                                          'does not (traced: %r)' % (r.get('traced'),))
                        rec['found_by'] = 'native execution of a fidelity vector (not visible under tracing)'
                        rec['native'] = nat
                        violations.append((h['name'], j['vec'], rp))
                        continue
                errors.append('%s: fidelity mismatch native=%r traced=%r' % (j['id'], r.get('native'), r.get('traced')))

    # hash-seed pairs: the same slice explored under different PYTHONHASHSEEDs
    # must produce the same set of path summaries (inputs + observed order)
    pairs = {}
    for r in results:
        j = r['job']
        if j['kind'] == 'verify' and j.get('hashseed') is not None and classify(r) == 'confirmed':
            pairs.setdefault(j['pair'], []).append((j['hashseed'], r.get('summ_digest'), r.get('n_summaries')))
    for pid, lst in sorted(pairs.items()):
        if len({d for _s, d, _n in lst}) > 1:
            rp = os.path.join(OUT, 'replays', '%s-seedpair-%s.json' % (prop, pid))
            os.makedirs(os.path.dirname(rp), exist_ok=True)
            json.dump({'property': prop, 'kind': 'seedpair', 'pair': pid, 'seen': lst,
                       'note': 'the set of (input, observed result) summaries of this slice differs between PYTHONHASHSEED values; '
                               're-run ./check %s --only %s to reproduce' % (prop, pid.rsplit('_v', 1)[0])}, open(rp, 'w'), indent=1)
            violations.append((pid, {'hashseeds': [x[0] for x in lst]}, rp))

    # known findings: re-execute the witness natively
    kf_lines = []
    for k in kf:
        h = hmap.get(k['harness'])
        if h is None or (only and h['name'] not in only):
            continue
        call_args = eval('(lambda *a: list(a))(%s)' % h['call'], dict(k['witness']))
        nat = native_run(hmodname, h['fn'], call_args)
        native_execs += 1
        if nat.get('ok') is False:
            ln = 'KNOWN-FINDING: property=%s %s' % (prop, k['what'])
            if ln not in kf_lines:
                kf_lines.append(ln)
        elif nat.get('ok') is True:
            kf_lines.append('NOTE: known finding no longer reproduces: property=%s %s' % (prop, k['what']))
        else:
            errors.append('known-finding witness crashed: %r' % nat)

    verify = [p for p in per_job if p['kind'] == 'verify']
    all_summ = set()
    for r in results:
        if r['job']['kind'] == 'verify':
            all_summ.update(r.get('summaries', []))
    paths = sum(p['paths'] for p in verify)
    samples = []
    for r in results:
        if r['job']['kind'] == 'verify' and r.get('summaries'):
            samples.append({'harness': r['job']['harness'], 'slice': r['job'].get('slice', ''),
                            'path_summary': r['summaries'][len(r['summaries']) // 2][:500]})
        if len(samples) >= 4:
            break
    for p in per_job:
        if 'counterexample' in p:
            samples.append({'counterexample': p['counterexample'], 'harness': p['id']})
    if not samples:
        samples = [{'note': 'no path summaries recorded'}]
    ev = {
        'property_id': prop, 'tier': tier, 'seed': seed, 'level': 'model_checking',
        'coverage': {
            'states': max(paths, 0),
            'transitions': sum(p['queries'] for p in verify),
            'traces_validated_against_impl': native_execs,
            'samples': samples,
            'evaluations': paths,
            'distinct_nontrivial': max(len(all_summ) - 1, 0),
            'rule': 'one evaluation = one path of the real code explored by CrossHair (symbolic inputs, z3 decides each '
                    'branch); distinct_nontrivial = number of distinct concrete event summaries (H.LAST) produced by those '
                    'paths minus one (the all-default world)',
            'exhaustive': (not inconclusive and not errors and not not_explored and bool(verify)
                           and all(p['verdict'] in ('confirmed', 'refuted') for p in verify)),
            'explanation': 'bounded symbolic execution (CrossHair 0.0.110 / z3) of the real functions; a slice is '
                           '"confirmed" only when CrossHair exhausted its path tree',
            'functions_encoded': SPEC['encoded'],
            'source_hashes': file_hashes(SPEC.get('files', [])),
            'bounds': {h['name']: h['bounds'].get(tier) for h in SPEC['harnesses'] if tier in h['bounds']},
            'slices': per_job,
            'queries_discharged': sum(p['queries'] for p in per_job),
            'solver_s': round(sum(p['solver_s'] for p in per_job), 2),
            'inconclusive': inconclusive,
            'not_explored_time_budget': not_explored,
            'time_budget_s': (DEADLINE[0] - t_start) if DEADLINE[0] else None,
            'harness_errors': errors,
            'known_findings': kf_lines,
            'stubs': SPEC.get('stubs', []),
            'outside_claim': SPEC.get('outside', []),
        },
        'assumptions': SPEC.get('assumptions', []) + ['CrossHair 0.0.110 symbolic semantics of Python 3.12 agree with CPython on the paths explored (checked per harness by fidelity twins)'],
        'wall_s': round(time.time() - t_start, 1),
        'violations': len(violations),
    }
    extra = getattr(H, 'extra_evidence', None)
    if extra:
        try:
            ev['coverage'].update(extra(tier) or {})
        except Exception as e:  # noqa
            errors.append('extra_evidence failed: %r' % e)
    # quick tier -> evidence/<id>.json (the file MANIFEST names; what a fresh run of the quick command rewrites);
    # thorough tier -> evidence/thorough/<id>.json
    evdir = os.path.join(OUT, 'evidence') if tier == 'quick' else os.path.join(OUT, 'evidence', 'thorough')
    os.makedirs(evdir, exist_ok=True)
    json.dump(ev, open(os.path.join(evdir, prop + '.json'), 'w'), indent=1, default=str)

    for ln in kf_lines:
        print(ln)
    if verbose:
        print('%s %s: %d jobs, %d paths, %d solver queries (%.1fs solver), wall %.0fs; confirmed=%d refuted=%d inconclusive=%d errors=%d'
              % (prop, tier, len(per_job), paths, ev['coverage']['queries_discharged'], ev['coverage']['solver_s'],
                 ev['wall_s'], sum(p['verdict'] == 'confirmed' for p in verify),
                 sum(p['verdict'] == 'refuted' for p in verify), len(inconclusive), len(errors)) + (' not-explored=%d' % len(not_explored) if not_explored else ''))
        for i in inconclusive:
            print('INCONCLUSIVE', i)
        if not_explored:
            print('NOT-EXPLORED %d of %d slices were not started (or not finished half a budget later) within the time budget of %.0f s (VERIF_BUDGET_S=0 lifts it): %s'
                  % (len(not_explored), len(verify), DEADLINE[0] - t_start, ' '.join(not_explored[:12]) + (' ...' if len(not_explored) > 12 else '')))
    for name, vec, rp in violations:
        print('VIOLATION property=%s replay=%s' % (prop, rp))
    if violations:
        return 1
    if errors:
        for e in errors:
            print('HARNESS-ERROR', e, file=sys.stderr)
        return 2
    if inconclusive and os.environ.get('VERIF_STRICT'):
        return 2
    return 0


def write_replay(prop, hmodname, h, vec, call_args, nat, message):
    os.makedirs(os.path.join(OUT, 'replays'), exist_ok=True)
    body = {'property': prop, 'module': hmodname, 'fn': h['fn'], 'harness': h['name'],
            'args': vec, 'call_args': call_args, 'crosshair_message': message[:1000],
            'native': nat}
    hsh = hashlib.sha256(json.dumps([h['name'], vec], sort_keys=True, default=str).encode()).hexdigest()[:10]
    p = os.path.join(OUT, 'replays', '%s-%s.json' % (prop, hsh))
    json.dump(body, open(p, 'w'), indent=1, default=str)
    return p


def replay(path):
    body = json.load(open(path))
    if body.get('kind') == 'seedpair':
        return check_property(body['property'], 'quick', only=[body['pair'].rsplit('_v', 1)[0]])
    nat = native_run(body['module'], body['fn'], body['call_args'])
    print(json.dumps(nat, indent=1)[:3000])
    if nat.get('ok') is False:
        print('VIOLATION property=%s replay=%s' % (body['property'], path))
        return 1
    return 0 if nat.get('ok') else 2
