"""Whole-run worlds: the real Runner.run() of a parent process over a small
world (layers A, B [, unit tests]) with loop-back children, in one of the
execution modes, with the real text formatter.  Used by C02, C03, C12, C06b.

The world is concrete by the time it is built (the harness concretises its
symbolic parameters by solver case splits first); everything the runner does
with it is traced."""
import re
import types
import unittest

from zope.testrunner import find as F
from zope.testrunner import runner as R

from vt import loopback as LB
from vt import runworld as RW
from vt import world as W
from vt.util import FakeGC, untraced

R.gc = FakeGC
R.TestResult._exc_info_to_string = lambda self, err, test: 'traceback'

MODES = ['seq', 'j2', 'nie', 'j1', 'j3']


def argv_for(mode):
    return {'seq': [], 'j2': ['-j2'], 'nie': [], 'j1': ['-j1'], 'j3': ['-j3']}[mode]


class World:
    """kinds: dict test name -> kind; tests named <layer letter lower><i>;
    'u*' tests have no layer (unit tests)."""

    def __init__(self, kinds, b_on_a=False, su=None, td=None, imp=False, noise=False, order=None, hooks='st', levels=None, nest=False, strnames=None, suite_level=None):
        self.kinds = dict(kinds)
        self.su = su or {}
        self.td = td or {}
        self.imp = imp
        A = W.mk_layer('A', (), su=self.su.get('A', 0), td=self.td.get('A', 0), hooks=hooks)
        B = W.mk_layer('B', (A,) if b_on_a else (), su=self.su.get('B', 0), td=self.td.get('B', 0), hooks=hooks)
        # 'A2': a layer whose full name ('w.A2') contains another layer's full name ('w.A')
        A2 = W.mk_layer('A2', (), hooks=hooks)
        self.layers = {'A': A, 'B': B, 'X': A2}
        self.b_on_a = b_on_a
        out = None
        if noise:
            def out(name):
                import sys
                sys.stderr.write('0 0 0\n5 1 1\n')
                sys.stdout.write('7 1 0\nnoise from %s\n' % name)
                print('2 2 2', file=sys.stderr)
        self.tests = []
        names = order or sorted(kinds)
        for n in names:
            ly = self.layers.get(n[0].upper())
            t = W.mk_test(n, kinds[n], layer=ly, out=out, level=(levels or {}).get(n))
            if strnames and n in strnames:          # what str(test) shows (e.g. an id spanning several lines)
                type(t).__str__ = (lambda text: (lambda self: text))(strnames[n])
            self.tests.append(t)
        self.names = names
        self.nest = nest
        self.suite_level = suite_level

    def suites(self):
        if self.nest:       # the same tests, nested to depth 3 in two top-level suites
            half = len(self.tests) // 2
            inner = unittest.TestSuite(self.tests[:half])
            outer = unittest.TestSuite([unittest.TestSuite([inner])])
            if self.suite_level is not None:      # an enclosing suite declares a level; tests re-declare their own
                outer.level = self.suite_level
            s = [outer, unittest.TestSuite(self.tests[half:])]
        else:
            s = [unittest.TestSuite(self.tests)]
        if self.imp:
            try:
                raise ImportError('No module named broken')
            except ImportError:
                import sys
                ei = sys.exc_info()
            s.append(F.StartUpFailure(types.SimpleNamespace(post_mortem=False), 'broken.module', ei[:2] + (None,)))
        return s

    def layer_of(self, name):
        return {'a': 'A', 'b': 'B', 'x': 'A2'}.get(name[0], 'U')


class Run:
    pass


def run(world, mode, argv=(), fault=None):
    """-> Run(failed, ran, trace, text, children, thread_exc, escaped)"""
    W.reset()
    LB.install()
    LB.reset(world.suites)
    if fault:
        LB.FAULT['*'] = fault
    out = Run()
    out.escaped = None
    with RW.Captured() as cap:
        r = R.Runner(args=['t'] + argv_for(mode) + list(argv), found_suites=world.suites(), script_parts=['t'])
        try:
            r.run()
        except Exception as e:
            out.escaped = type(e).__name__
    out.runner = r
    out.failed = r.failed
    out.ran = r.ran
    out.trace = list(W.TRACE)
    out.text = cap.text()
    out.children = [dict(c) for c in LB.CHILDREN]
    out.thread_exc = list(LB.THREAD_EXC)
    return out


_RAN = re.compile(r'Ran (\d+) tests with (\d+) failures, (\d+) errors and (\d+) skipped')
_TOTAL = re.compile(r'Total: (\d+) tests, (\d+) failures, (\d+) errors and (\d+) skipped')


def parse_text(text, cont=()):
    """Parent's printed report -> dict(layers=[(name, n, f, e, s)], total=(n,f,e,s)|None, fail_names, err_names)"""
    layers = []
    cur = None
    total = None
    fail_names, err_names = [], []
    sect = None
    for ln in text.splitlines():
        m = re.match(r'Running (\S+) tests:', ln)
        if m:
            cur = m.group(1)
            sect = None
            continue
        m = _RAN.search(ln)
        if m:
            layers.append((cur,) + tuple(int(x) for x in m.groups()))
            continue
        m = _TOTAL.search(ln)
        if m:
            total = tuple(int(x) for x in m.groups())
            sect = None
            continue
        if ln.startswith('Tests with failures:'):
            sect = fail_names
            continue
        if ln.startswith('Tests with errors:'):
            sect = err_names
            continue
        if sect is not None:
            if any(ln.startswith(c) for c in cont):                 # second line of a test whose str() spans lines (printed verbatim in-process)
                continue
            if ln.startswith('   '):
                sect.append(ln.strip())
            else:
                sect = None
    return dict(layers=layers, total=total, fail_names=fail_names, err_names=err_names)
