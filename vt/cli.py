import argparse
import os
import sys

from vt import engine


def main():
    ap = argparse.ArgumentParser()
    ap.add_argument('prop')
    ap.add_argument('--tier', default=os.environ.get('VERIF_TIER') or 'quick',
                    choices=['quick', 'thorough'])
    ap.add_argument('--replay')
    ap.add_argument('--only')
    a = ap.parse_args()
    if a.replay:
        sys.exit(engine.replay(a.replay))
    only = a.only.split(',') if a.only else None
    sys.exit(engine.check_property(a.prop.upper(), a.tier, only=only))


if __name__ == '__main__':
    main()
