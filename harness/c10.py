"""C10 - layer run order: a function of the layer set (names + base relation)
only; unit tests first; bases before derived; each layer exactly once.

order():  the real Runner.ordered_layers / layer_from_name / order_by_bases /
          layer_sort_key / gather_layers on a symbolic DAG of <= 4 layers with a
          symbolic naming (which node gets which pool name / module), a symbolic
          subset owning tests, a symbolic discovery (insertion) order and an
          optional UnitTests layer.  The same world is fed twice - canonical
          insertion order and the permuted one - and both results are compared.
Symbolic: edges e_ij (i > j), naming permutation, module flag of one node,
owner subset, insertion permutation, unit flag, instance/class layers, -j."""
import itertools
import unittest

from zope.testrunner import layer as ZL
from zope.testrunner import runner as R
from zope.testrunner.find import _layer_name_cache, name_from_layer

from vt import runworld as RW
from vt import world as W
from vt.util import cb, ci, pick, untraced

LAST = None
POOL = ['La', 'Lb', 'Lc', 'Ld']
PERM3 = list(itertools.permutations(range(3)))
PERM4 = list(itertools.permutations(range(4)))


def build(k, edges, names, mods, inst):
    layers = []
    bases = {}
    for i in range(k):
        bs = [layers[j] for j in range(i) if edges[(i, j)]]
        # drop bases already implied by another base (keeps a consistent MRO for classes)
        layers.append(W.mk_layer(names[i], tuple(bs), hooks='', instance=inst, module=mods[i]))
        bases[i] = {j for j in range(i) if edges[(i, j)]}
    return layers, bases


def ancestors(bases, i):
    out = set()
    todo = list(bases[i])
    while todo:
        b = todo.pop()
        if b not in out:
            out.add(b)
            todo.extend(bases[b])
    return out


def run_order(k, layers, owners, ins, unit, j, inst):
    """Feed the real Runner.ordered_layers with tests_by_layer_name filled in
    insertion order `ins` (a permutation of the owners)."""
    o = RW.options(['-j2'] if j else [])
    r = R.Runner(options=o, args=['t'], script_parts=['t'])
    _layer_name_cache.clear()
    tbl = {}
    entries = [layers[i] for i in ins if i in owners]
    if unit == 1:
        entries.insert(0, ZL.UnitTests)
    elif unit == 2:
        entries.append(ZL.UnitTests)
    for ly in layers:
        name_from_layer(ly)
    for ly in entries:
        tbl[name_from_layer(ly)] = unittest.TestSuite()
    r.tests_by_layer_name = tbl
    return [(n, ly) for n, ly, _t in r.ordered_layers()]


def order(k, p, q, m0, dup, inst, unit, j, own, *e):
    global LAST
    LAST = None
    inst, j = cb(inst), cb(j)
    unit = ci(unit, 0, 2)
    m0 = cb(m0)
    dup = cb(dup)
    perms = PERM3 if k == 3 else PERM4
    naming = pick(perms, p)
    ins = pick(perms, q)
    own = ci(own, 1, (1 << k) - 1)
    owners = {i for i in range(k) if own >> i & 1}
    edges = {}
    n = 0
    for i in range(k):
        for jj in range(i):
            edges[(i, jj)] = cb(e[n])
            n += 1
    names = [POOL[naming[i]] for i in range(k)]
    mods = ['w2' if (m0 and i == 0) else 'w' for i in range(k)]
    if dup:            # two layers with the same __name__ in different modules
        names[1] = names[0]
        mods[0], mods[1] = 'w', 'w2'
    with untraced():
        try:
            layers, bases = build(k, edges, names, mods, inst)
        except TypeError:          # inconsistent MRO: not a layer graph Python accepts
            LAST = ('mro', k, names, tuple(sorted(edges.items())))
            return True
    got = run_order(k, layers, owners, ins, unit, j, inst)
    ref = run_order(k, layers, owners, tuple(range(k)), 1 if unit else 0, j, inst)
    with untraced():
        why = oracle(k, layers, bases, owners, unit, j, got, ref)
    LAST = (k, tuple(names), tuple(mods), tuple(sorted(kk for kk, v in edges.items() if v)), tuple(sorted(owners)),
            ins, unit, j, inst, why, tuple(nm for nm, _l in got))
    return why is None


def oracle(k, layers, bases, owners, unit, j, got, ref):
    gl = [ly for _n, ly in got]
    if [n for n, _l in got] != [n for n, _l in ref]:
        return 'order depends on discovery order: %r vs %r' % ([n for n, _l in got], [n for n, _l in ref])
    if j:
        if not gl or gl[0] is not ZL.EmptyLayer:
            return '-j: the dispatching pseudo layer is not first'
        gl = gl[1:]
        got = got[1:]
    for n, ly in got:
        if name_from_layer(ly) != n:
            return 'layer name %r does not belong to the layer yielded with it' % n
    exp = [layers[i] for i in sorted(owners)] + ([ZL.UnitTests] if unit else [])
    if len(gl) != len(exp) or any(sum(1 for x in gl if x is y) != 1 for y in exp):
        return 'layers yielded %r, expected each of %r once' % (gl, exp)
    if unit and gl[0] is not ZL.UnitTests:
        return 'unit tests are not first: %r' % (gl,)
    pos = {}
    for idx, ly in enumerate(gl):
        for i in range(k):
            if layers[i] is ly:
                pos[i] = idx
    for i in owners:
        for b in ancestors(bases, i):
            if b in owners and pos[b] > pos[i]:
                return 'layer %d runs before its base %d' % (i, b)
    return None


def order_reach(k, *a):
    order(k, *a)
    return LAST is not None and LAST[0] != 'mro' and LAST[9] is None and len(LAST[10]) >= 3 and len(LAST[3]) >= 2


def once(e10, e20, e21, td0, td1, td2, x):
    """Each selected layer is run exactly once (as one group) by the run loop itself: the real Runner.run_tests over three
    layers that all own tests, with tearDown faults (raise / NotImplementedError) so that the loop has to hand layers over
    to subprocesses - every layer is either run here or handed over, never both, never twice, never dropped."""
    global LAST
    from harness import c01
    ok = c01.stack(e10, e20, e21, True, True, True, False, False, False, td0, td1, td2, x, False, False, False)
    LAST = ('once',) + tuple(c01.LAST)
    return ok


def once_reach(*a):
    once(*a)
    return LAST[10] is None and len(LAST[12]) >= 1


def again(a0, a1, a2, b0, b1, b2, p, inst):
    """The order depends on the set of layers of *this* run only, not on what an earlier run in the same process saw: two
    orderings in one process in which the same three names denote different layer objects with a different base relation
    (layers made by a factory, a re-imported module)."""
    global LAST
    LAST = None
    inst = cb(inst)
    naming = pick(PERM3, p)
    e1 = {(1, 0): cb(a0), (2, 0): cb(a1), (2, 1): cb(a2)}
    e2 = {(1, 0): cb(b0), (2, 0): cb(b1), (2, 1): cb(b2)}
    why = None
    got = []
    for which, (edges, names) in enumerate(((e1, [POOL[i] for i in range(3)]), (e2, [POOL[naming[i]] for i in range(3)]))):
        with untraced():
            try:
                layers, bases = build(3, edges, names, ['w'] * 3, inst)
            except TypeError:
                LAST = ('mro',)
                return True
        got = run_order(3, layers, {0, 1, 2}, (2, 0, 1), 0, False, inst)
        ref = run_order(3, layers, {0, 1, 2}, (0, 1, 2), 0, False, inst)
        with untraced():
            why = oracle(3, layers, bases, {0, 1, 2}, 0, False, got, ref)
        if why:
            why = 'run %d: %s' % (which + 1, why)
            break
    LAST = ('again', tuple(sorted(k for k, v in e1.items() if v)), tuple(sorted(k for k, v in e2.items() if v)), naming, inst, why, tuple(nm for nm, _l in got))
    return why is None


def again_reach(*a):
    again(*a)
    return LAST[0] == 'again' and LAST[5] is None and LAST[1] != LAST[2] and len(LAST[2]) >= 2


POOL5 = ['La', 'Lb', 'Lc', 'Ld', 'Le']
PERM5 = list(itertools.permutations(range(5)))
INS5 = [(0, 1, 2, 3, 4), (4, 3, 2, 1, 0), (2, 4, 0, 3, 1)]
OWN5 = [31, 15, 23, 27, 29, 30, 6, 22]


def order5(p, q, topo, own):
    """A diamond whose apex has one more, unrelated base: nodes 0 = shared base P, 1 = B1(P), 2 = Q(P), 3 = R, 4 = T(B1, Q, R)
    (topo 0) or T(R, B1, Q) (topo 1); every naming of the five nodes; the order must not put a layer before one of its bases."""
    global LAST
    LAST = None
    naming = pick(PERM5, p)
    ins = pick(INS5, q)
    topo = ci(topo, 0, 1)
    own = pick(OWN5, own)
    owners = {i for i in range(5) if own >> i & 1}
    names = [POOL5[naming[i]] for i in range(5)]
    with untraced():
        P = W.mk_layer(names[0], (), hooks='')
        B1 = W.mk_layer(names[1], (P,), hooks='')
        Q = W.mk_layer(names[2], (P,), hooks='')
        Rr = W.mk_layer(names[3], (), hooks='')
        T = W.mk_layer(names[4], (B1, Q, Rr) if topo == 0 else (Rr, B1, Q), hooks='')
        layers = [P, B1, Q, Rr, T]
        bases = {0: set(), 1: {0}, 2: {0}, 3: set(), 4: {1, 2, 3}}
    got = run_order(5, layers, owners, ins, 0, False, False)
    ref = run_order(5, layers, owners, (0, 1, 2, 3, 4), 0, False, False)
    with untraced():
        why = oracle(5, layers, bases, owners, 0, False, got, ref)
    LAST = (5, tuple(names), topo, tuple(sorted(owners)), ins, why, tuple(nm for nm, _l in got))
    return why is None


def resumed(mode, tdk):
    """The order in which layers really run when they are handed to subprocesses (-j N with fewer processes than layers, or
    after a tearDown that raised NotImplementedError) is the sequential layer order: unit tests first, then sorted."""
    global LAST
    from vt import fullrun as FR
    mode = pick(['nie', 'j2', 'j3', 'j1'], mode)
    tdk = ci(tdk, 0, 1)
    with untraced():
        kinds = {'u0': W.PASS, 'a0': W.PASS, 'x0': W.PASS, 'b0': W.PASS, 'b1': W.PASS}
        world = FR.World(kinds, td={'A': 2} if (mode == 'nie' or tdk) else {}, order=['b0', 'x0', 'u0', 'a0', 'b1'])
    res = FR.run(world, mode)
    with untraced():
        seq = []
        for e in res.trace:
            if e[1] == 'test' and e[2][0] not in seq:
                seq.append(e[2][0])
        why = None
        if res.escaped or res.thread_exc:
            why = 'exception %r / %r' % (res.escaped, res.thread_exc)
        elif sorted(e[2] for e in res.trace if e[1] == 'test') != ['a0', 'b0', 'b1', 'u0', 'x0']:
            why = 'each selected layer runs exactly once: tests executed over all processes %r (mode %s)' % (sorted(e[2] for e in res.trace if e[1] == 'test'), mode)
        elif [e[2][0] for e in res.trace if e[1] == 'test'] not in (['u', 'a', 'x', 'b', 'b'],):
            why = 'layers do not run as contiguous groups in the layer order: %r (mode %s)' % ([e[2] for e in res.trace if e[1] == 'test'], mode)
        elif seq != ['u', 'a', 'x', 'b']:
            why = 'layers ran in order %r, the layer order is unit tests, w.A, w.A2, w.B (mode %s, %d children)' % (seq, mode, len(res.children))
    LAST = ('resumed', mode, tdk, why, tuple(seq), len(res.children))
    return why is None


def resumed_reach(*a):
    resumed(*a)
    return LAST[3] is None and LAST[5] >= 2


def _mk(k):
    ne = k * (k - 1) // 2
    params = [('p', 'int'), ('q', 'int'), ('m0', 'bool'), ('dup', 'bool'), ('inst', 'bool'), ('unit', 'int'), ('j', 'bool'), ('own', 'int')]
    params += [('e%d' % i, 'bool') for i in range(ne)]
    call = '%d, ' % k + ', '.join(n for n, _ in params)
    nperm = 6 if k == 3 else 24
    b = '0 <= p < %d and 0 <= q < %d and 0 <= unit <= 2 and 1 <= own < %d' % (nperm, nperm, 1 << k)
    return params, call, b


p3, c3, b3 = _mk(3)
p4, c4, b4 = _mk(4)


def _v(k, **kw):
    v = dict(p=0, q=0, m0=False, dup=False, inst=False, unit=0, j=False, own=(1 << k) - 1)
    for i in range(k * (k - 1) // 2):
        v['e%d' % i] = False
    v.update(kw)
    return v


SPEC = {
    'property': 'C10',
    'encoded': ['zope.testrunner.runner.Runner.run_tests (layer loop: once(), the C01 world)', 'zope.testrunner.runner.Runner.ordered_layers', 'runner.order_by_bases', 'runner.layer_sort_key', 'runner.gather_layers',
                'runner.layer_from_name', 'find.name_from_layer'],
    'files': ['src/zope/testrunner/runner.py', 'src/zope/testrunner/find.py', 'src/zope/testrunner/layer.py'],
    'stubs': ['options from the real get_options on a concrete argv (evaluated untraced)'],
    'assumptions': ['layer graphs whose class MRO Python rejects (TypeError at class creation) are not layer graphs',
                    'full layer names (module + name) are distinct; two layers may share their __name__ across modules'],
    'outside': ['PYTHONHASHSEED is an interpreter start-up parameter: every slice is run under two fixed seeds (0 and 1) and the sets of '
                'path summaries are compared - two points, not a quantifier', 'more than 4 layers'],
    'harnesses': [
        {'name': 'order3', 'fn': 'order', 'params': p3, 'call': c3,
         'bounds': {'quick': b3 + ' and not j and not m0 and (not dup or (unit == 0 and own == 7 and not inst))', 'thorough': b3 + ' and not (dup and m0)'},
         'slices': {'quick': ['p == %d and %s' % (i, s) for i in range(6) for s in ('inst', 'not inst')],
                    'thorough': ['p == %d and q == %d' % (i, jx) for i in range(6) for jx in range(6)]},
         'hashseeds': [0, 1],
         'reach': 'order_reach', 'reach_bounds': {'quick': b3 + ' and p == 0 and q == 1 and not inst and not j and unit == 0 and own == 7',
                                                  'thorough': b3 + ' and p == 0 and q == 1 and not inst and not j and unit == 0 and own == 7'},
         'timeout': {'quick': 300, 'thorough': 850},
         'fidelity': [_v(3, e0=True, e2=True, q=3, unit=2), _v(3, p=4, q=2, e1=True, inst=True, own=5),
                      _v(3, p=5, m0=True, e0=True, e1=True, unit=1), _v(3, p=2, q=4, dup=True, e2=True)]},
        {'name': 'once', 'fn': 'once', 'params': [('e10', 'bool'), ('e20', 'bool'), ('e21', 'bool'), ('td0', 'int'), ('td1', 'int'), ('td2', 'int'), ('x', 'bool')],
         'call': 'e10, e20, e21, td0, td1, td2, x',
         'bounds': {'quick': '0 <= td0 <= 2 and 0 <= td1 <= 2 and 0 <= td2 <= 2 and (td0 != 0) + (td1 != 0) + (td2 != 0) <= 2',
                    'thorough': '0 <= td0 <= 2 and 0 <= td1 <= 2 and 0 <= td2 <= 2'},
         'slices': {'quick': ['td0 == %d' % t for t in range(3)], 'thorough': ['td0 == %d and td1 == %d' % (t, u) for t in range(3) for u in range(3)]},
         'reach': 'once_reach',
         'timeout': {'quick': 300, 'thorough': 800},
         'fidelity': [dict(e10=False, e20=False, e21=False, td0=2, td1=0, td2=0, x=False), dict(e10=True, e20=False, e21=True, td0=0, td1=2, td2=1, x=True)]},
        {'name': 'order5', 'fn': 'order5', 'params': [('p', 'int'), ('q', 'int'), ('topo', 'int'), ('own', 'int')], 'call': 'p, q, topo, own',
         'bounds': {'quick': '0 <= p < 120 and 0 <= q < 3 and 0 <= topo <= 1 and 0 <= own < 3', 'thorough': '0 <= p < 120 and 0 <= q < 3 and 0 <= topo <= 1 and 0 <= own < %d' % len(OWN5)},
         'slices': {'quick': ['p %% 8 == %d' % i for i in range(8)], 'thorough': ['p %% 8 == %d and topo == %d' % (i, t) for i in range(8) for t in (0, 1)]},
         'timeout': {'quick': 300, 'thorough': 1200},
         'fidelity': [dict(p=0, q=1, topo=0, own=0), dict(p=77, q=2, topo=1, own=1)]},
        {'name': 'again', 'fn': 'again', 'params': [('a0', 'bool'), ('a1', 'bool'), ('a2', 'bool'), ('b0', 'bool'), ('b1', 'bool'), ('b2', 'bool'), ('p', 'int'), ('inst', 'bool')],
         'call': 'a0, a1, a2, b0, b1, b2, p, inst',
         'bounds': {'quick': '0 <= p < 6 and not inst', 'thorough': '0 <= p < 6'},
         'slices': {'quick': ['p %% 2 == %d' % i for i in range(2)], 'thorough': ['p == %d' % i for i in range(6)]},
         'reach': 'again_reach', 'reach_bounds': {'quick': '0 <= p < 6 and not inst', 'thorough': '0 <= p < 6 and not inst'},
         'timeout': {'quick': 300, 'thorough': 850},
         'fidelity': [dict(a0=True, a1=False, a2=True, b0=False, b1=True, b2=False, p=5, inst=False), dict(a0=False, a1=False, a2=False, b0=True, b1=True, b2=True, p=3, inst=True)]},
        {'name': 'resumed', 'fn': 'resumed', 'params': [('mode', 'int'), ('tdk', 'int')], 'call': 'mode, tdk',
         'bounds': {'quick': '0 <= mode <= 3 and 0 <= tdk <= 1', 'thorough': '0 <= mode <= 3 and 0 <= tdk <= 1'},
         'reach': 'resumed_reach',
         'timeout': {'quick': 300, 'thorough': 300},
         'fidelity': [dict(mode=0, tdk=0), dict(mode=1, tdk=1)]},
        {'name': 'order4', 'fn': 'order', 'params': p4, 'call': c4,
         # quick: every 4-layer graph x every discovery order for one naming, owners = all but the shared middle layer (the owner
         # set for which a key computed from a cached prefix differs), class and instance layers
         'bounds': {'quick': b4 + ' and not j and not m0 and not dup and unit == 0 and p == 0 and own == 13',
                    'thorough': b4 + ' and not j and not m0 and not dup and unit == 0 and ((not inst and (own == 15 or own == 7 or own == 14)) or (p % 6 == 0 and (own == 13 or own == 11)))'},
         'slices': {'quick': ['q %% 8 == %d' % i for i in range(8)], 'thorough': ['p == %d' % i for i in range(24)]},
         'reach': 'order_reach', 'reach_bounds': {'quick': b4 + ' and p == 0 and q == 1 and not inst and not j and unit == 0 and own == 13 and not m0 and not dup',
                                                  'thorough': b4 + ' and p == 0 and q == 1 and not inst and not j and unit == 0 and own == 15'},
         'timeout': {'quick': 300, 'thorough': 1500},
         'fidelity': [_v(4, e0=True, e1=True, e5=True, q=7, p=9), _v(4, e0=True, e2=True, e3=True, e4=True, q=9, p=0, own=13, inst=True)]},
    ],
}
