"""C13 - buffered output is attributed correctly; std streams always restored.

Real run_tests() / TestResult (_setUpStdStreams, _restoreStdStreams, every
add*, stopTest) with the real OutputFormatter at -vv.  Symbolic: outcome
kind and write pattern of up to 3 consecutive tests, --buffer."""
import io
import re
import sys
import unittest

from zope.testrunner import formatter as FM
from zope.testrunner import runner as R
from zope.testrunner.find import name_from_layer
from zope.testrunner.options import get_options

from vt import world as W
from vt.util import FakeGC, FakeTime, KeepBytes, TextOut, cb, ci, untraced

R.time = FakeTime
R.gc = FakeGC
R.TestResult._exc_info_to_string = lambda self, err, test: 'traceback'


class _FakeTraceback:
    """formatter.traceback: the traceback text is not the subject here."""
    @staticmethod
    def format_exception(*a, **k):
        return ['Traceback (stub)\n']


FM.traceback = _FakeTraceback
LAST = None
_OPT = {}
# write patterns
W_NONE, W_PRINT, W_NONL, W_ERR, W_BOTH, W_BYTES, W_TD = range(7)      # W_TD: print() in setUp and to both streams in tearDown


def _options(buf):
    with untraced():
        if buf not in _OPT:
            _OPT[buf] = get_options(['t', '-vv'] + (['--buffer'] if buf else []), [])
        o = type(_OPT[buf])()
        o.__dict__.update(_OPT[buf].__dict__)
        o.output = FM.OutputFormatter(o)
    o.resume_layer = None
    o.resume_number = 0
    return o


TOK = {n: ('TOK-%s-out' % n, 'TOK-%s-err' % n, ('TOK-%s-out\n' % n).encode(), 'LATE-%s-out' % n, 'LATE-%s-err' % n, 'TD-%s-out' % n, 'TD-%s-err' % n) for n in ('t0', 't1', 't2', 'tz')}   # built at import, untraced


def writer(pattern):
    def out(name):
        if pattern in (W_PRINT, W_TD):
            print(TOK[name][0])
        elif pattern == W_NONL:
            sys.stdout.write(TOK[name][0])
        elif pattern == W_ERR:
            sys.stderr.write(TOK[name][1] + '\n')
        elif pattern == W_BOTH:
            print(TOK[name][0])
            print(TOK[name][1], file=sys.stderr)
        elif pattern == W_BYTES:
            sys.stdout.buffer.write(TOK[name][2])
            sys.stdout.flush()
    return out


def td_writer(pattern):
    if pattern != W_TD:
        return None

    def td_out(name):
        print(TOK[name][5])
        print(TOK[name][6], file=sys.stderr)
    return td_out


def tears_down(kind):
    return kind not in (W.SKIP_DECO, W.SKIP_SETUP, W.SETUP_ERR, W.KBD)


def late_writer(name):
    print(TOK[name][3])
    print(TOK[name][4], file=sys.stderr)


def tokens(name, pattern, kind=None):
    t = []
    if kind in (W.SUBPASS_PASS, W.SUBPASS_FAIL):
        t += [TOK[name][3], TOK[name][4]]
    if pattern in (W_PRINT, W_NONL, W_BOTH, W_BYTES, W_TD):
        t.append(TOK[name][0])
    if pattern == W_TD and kind is not None and tears_down(kind):
        t += [TOK[name][5], TOK[name][6]]
    if pattern in (W_ERR, W_BOTH):
        t.append(TOK[name][1])
    return t


def oracle(S, names, kinds, pats, buf, ids, orig):
    """S: everything the runner wrote; ids: (event, stdout, stderr) snapshots."""
    for what, so, se in ids:
        if what in ('tsu', 'ttd', 'end'):
            if so is not orig[0] or se is not orig[1]:
                return 'sys.stdout/sys.stderr not the original objects at %s' % what
        elif not buf and (so is not orig[0] or se is not orig[1]):
            return 'streams replaced without --buffer at %s' % what
    # position of each test's start marker (-vv prints " <name>" at start_test)
    starts = []
    for nm in names:
        m = re.search(r'(^|\n| ) %s\b' % nm, S)
        starts.append(m.start() if m else -1)
    for i, (nm, k, p) in enumerate(zip(names, kinds, pats)):
        started = k != W.SKIP_DECO
        for tok in (tokens(nm, p, k) if started else []):
            c = S.count(tok)
            if not buf or W.is_bad(k):
                if c != 1:
                    return 'output %r of %s test %s appears %d times' % (tok, W.KIND_NAMES[k], nm, c)
                pos = S.find(tok)
                if buf:
                    hdr = S.find('in test %s' % nm)
                    if hdr < 0 or pos < hdr:
                        return 'output %r of %s not after its failure header' % (tok, nm)
                nxt = [s for s in starts[i + 1:] if s >= 0]
                if nxt and pos > min(nxt):
                    return 'output %r of %s shown after the next test started' % (tok, nm)
                if starts[i] >= 0 and pos < starts[i]:
                    return 'output %r of %s shown before the test started' % (tok, nm)
            elif c != 0:
                return 'output %r of %s test %s leaked into the runner output' % (tok, W.KIND_NAMES[k], nm)
    return None


class _Folder:
    def __truediv__(self, other):
        return self

    def mkdir(self, *a, **k):
        pass


def streams(n, k0, k1, k2, p0, p1, p2, buf, kbd=False, xml=False):
    global LAST
    W.reset()
    n = ci(n, 1, 3)
    buf, kbd, xml = cb(buf), cb(kbd), cb(xml)
    kinds = [ci(k, 0, 16) for k in (k0, k1, k2)[:n]]
    pats = [ci(p, 0, 6) for p in (p0, p1, p2)[:n]]
    names = ['t0', 't1', 't2'][:n]      # literal names: '%'-formatting under CrossHair yields lazily symbolic strings
    with untraced():
        L = W.mk_layer('L', (), hooks='ST')
        tests = [W.mk_test(nm, k, out=writer(p), late=late_writer, td_out=td_writer(p)) for nm, k, p in zip(names, kinds, pats)]
        if kbd:          # a last test that is interrupted from the keyboard after it wrote to both streams
            tests.append(W.mk_test('tz', W.KBD, out=writer(W_BOTH)))
        suite = unittest.TestSuite(tests)
        raw = KeepBytes()
        out = TextOut(raw, encoding='utf-8', write_through=True)
        err = TextOut(raw, encoding='utf-8', write_through=True)
    o = _options(buf)
    if xml:          # --xml: the report wrapper sits between the result and the console formatter
        o.output = FM.XMLOutputFormattingWrapper(o.output, folder=_Folder())
    lname = name_from_layer(L)
    saved = (sys.stdout, sys.stderr)
    sys.stdout, sys.stderr = out, err
    escaped = None
    try:
        try:
            R.run_tests(o, suite, lname, [], [], [], [])
        except KeyboardInterrupt:
            escaped = None if kbd else 'KeyboardInterrupt'
        except Exception as e:         # C04's subject; here it makes the oracle fail
            escaped = type(e).__name__
        end = ('end', sys.stdout, sys.stderr)
    finally:
        sys.stdout, sys.stderr = saved
    with untraced():
        S = raw.getvalue().decode('utf-8', 'replace')
        ids = [(e[1], e[3], e[4]) for e in W.TRACE if e[1] in ('tsu', 'ttd')] + [end]
        why = oracle(S, names, kinds, pats, buf, ids, (out, err))
        if escaped and not why:
            why = 'exception escaped: ' + escaped
    LAST = (tuple(kinds), tuple(pats), buf, why, escaped, kbd, xml)
    return why is None


def streams_reach(*a):
    streams(*a)
    return LAST[3] is None and LAST[2] and W.FAIL in LAST[0] and LAST[1][0] == W_BOTH


_P = [('n', 'int'), ('k0', 'int'), ('k1', 'int'), ('k2', 'int'), ('p0', 'int'), ('p1', 'int'), ('p2', 'int'), ('buf', 'bool'), ('kbd', 'bool'), ('xml', 'bool')]
_C = ', '.join(n for n, _ in _P)
_B = '1 <= n <= 3 and ' + ' and '.join('0 <= k%d <= 16 and 0 <= p%d <= 6' % (i, i) for i in range(3))


def _v(**kw):
    v = dict(n=2, k0=1, k1=0, k2=0, p0=4, p1=1, p2=0, buf=True, kbd=False, xml=False)
    v.update(kw)
    return v


SPEC = {
    'property': 'C13',
    'encoded': ['zope.testrunner.runner.run_tests', 'TestResult._setUpStdStreams', 'TestResult._restoreStdStreams',
                'TestResult._makeBufferedStdStream', 'TestResult.startTest/stopTest/addSuccess/addSkip/addError/addFailure/'
                'addSubTest/addExpectedFailure/addUnexpectedSuccess', 'formatter.OutputFormatter.start_test/test_error/'
                'test_failure/print_traceback/print_std_streams/stop_test'],
    'files': ['src/zope/testrunner/runner.py', 'src/zope/testrunner/formatter.py', 'src/zope/testrunner/options.py'],
    'stubs': ['formatter.traceback.format_exception -> constant text', 'unittest.TestResult._exc_info_to_string -> constant',
              'runner.time, runner.gc', 'sys.stdout/sys.stderr -> two TextIOWrapper objects over one byte buffer (no getvalue(), like real streams)'],
    'assumptions': ['each test writes its tokens at the start of its own setUp (write pattern 6: also in its tearDown, i.e. after a failure of its body was reported); a decorator-skipped test writes nothing'],
    'outside': ['writes through file descriptors 1/2', 'tests that replace sys.stdout themselves', 'more than 3 consecutive tests'],
    'harnesses': [
        {'name': 'streams', 'fn': 'streams', 'params': _P, 'call': _C,
         # quick: 2 tests, all 17x17 kinds, write pattern of the second test fixed to print()
         'bounds': {'quick': _B + ' and n <= 2 and p1 == 1 and k2 == 0 and p2 == 0 and (not kbd or (n == 1 and p0 == 4)) and (not xml or (buf and n == 1))',
                    'thorough': _B + ' and (n == 1 or (not kbd and not xml)) and (n <= 1 or p1 <= 2) and (n <= 2 or (p1 == 1 and p2 == 1 and buf and k2 <= 8))'},
         'slices': {'quick': ['k0 == %d and %s' % (k, b) for k in range(17) for b in ('buf', 'not buf')],
                    'thorough': ['k0 == %d and n == %d and %s' % (k, n, b) for k in range(17) for n in (1, 2, 3) for b in ('buf', 'not buf') if not (n == 3 and b == 'not buf')]},
         'reach': 'streams_reach', 'reach_bounds': {'quick': _B + ' and n == 2 and p1 == 1 and k2 == 0 and p2 == 0 and buf and p0 == 4',
                                                    'thorough': _B + ' and n == 2 and p1 == 1 and k2 == 0 and p2 == 0 and buf and p0 == 4'},
         'timeout': {'quick': 240, 'thorough': 850},
         'fidelity': [_v(), _v(k0=6, p0=1), _v(k0=16, k1=15, p0=4), _v(n=1, kbd=True), _v(n=1, k0=2, p0=3, xml=True), _v(n=3, k0=7, k1=4, k2=9, p0=2, p1=5, p2=3), _v(buf=False, k0=5, p0=5), _v(k0=1, p0=6), _v(k0=13, k1=2, p0=6, p1=6)]},
    ],
}
