"""Confirms a seeded change delivered by a sub-agent and, when everything holds,
files it under /verif/seeded/<id>/ (patch.diff, demo.py, notes.md, meta.json).

Confirmed in a scratch worktree of /repo HEAD (never in /repo itself, removed
afterwards):
  1. demo.py exits 0 on the pristine tree,
  2. patch.diff applies, the package still imports,
  3. demo.py exits non-zero with the patch,
  4. the pytest summary line is identical before and after the patch.

usage: python -m vt.confirm_seed <delivery-dir> <id> [--round 3]
"""
import json
import os
import re
import shutil
import subprocess
import sys
import tempfile

VERIF = os.path.dirname(os.path.dirname(os.path.abspath(__file__)))
PY = os.path.join(VERIF, '.venv', 'bin', 'python')
MODS = ('runner', 'formatter', 'find', 'filter', 'options', 'process', 'shuffle', 'listing', 'statistics',
        'tb_format', 'threadsupport', 'digraph', 'garbagecollection', 'debug', 'layer', 'coverage', 'profiling',
        'logsupport', 'selftest', 'interfaces', 'feature', 'refcount')


def sh(cmd, env=None, cwd=None, timeout=600):
    try:
        p = subprocess.run(cmd, capture_output=True, text=True, env=env, cwd=cwd, timeout=timeout)
        return p.returncode, (p.stdout + p.stderr)
    except subprocess.TimeoutExpired as e:
        return 124, 'TIMEOUT ' + str(e)


def pytest_line(wt, env):
    rc, out = sh([PY, '-m', 'pytest', '-q', '-p', 'no:cacheprovider', '--timeout=900', '--continue-on-collection-errors'],
                 env=env, cwd=wt, timeout=1200)
    lines = [ln for ln in out.strip().splitlines() if re.search(r'\d+ (passed|failed)', ln)]
    line = lines[-1] if lines else out[-300:]
    line = re.sub(r' in [0-9.]+s.*', '', line)
    passed = sorted(set(re.findall(r'^(\S+::\S+) PASSED', out, re.M)))
    return line, passed


def main():
    src, mid = sys.argv[1], sys.argv[2]
    rnd = 3
    if '--round' in sys.argv:
        rnd = int(sys.argv[sys.argv.index('--round') + 1])
    prop = mid.split('-')[0]
    for f in ('patch.diff', 'demo.py', 'notes.md'):
        if not os.path.exists(os.path.join(src, f)):
            print(mid, 'REJECT missing', f)
            return 1
    wt = tempfile.mkdtemp(prefix='cs-', dir='/tmp')
    os.rmdir(wt)
    rc, out = sh(['git', '-C', '/repo', 'worktree', 'add', '--detach', wt, 'HEAD'])
    assert rc == 0, out
    res = {}
    try:
        env = dict(os.environ, VERIF_REPO=wt, ZTR_SRC=wt + '/src', PYTHONDONTWRITEBYTECODE='1', PYTHONHASHSEED='0')
        env.pop('PYTHONPATH', None)
        demo = os.path.abspath(os.path.join(src, 'demo.py'))
        rc, out = sh([PY, '-c', 'import zope.testrunner.runner as r; print(r.__file__)'], env=env, cwd='/tmp')
        assert wt in out, out
        res['demo_rc_unpatched'], o0 = sh([PY, demo], env=env, cwd='/tmp', timeout=300)
        res['pytest_unpatched'], _p = pytest_line(wt, env)
        rc, out = sh(['git', '-C', wt, 'apply', os.path.abspath(os.path.join(src, 'patch.diff'))])
        res['patch_applies_to_repo_head'] = rc == 0
        if rc:
            res['apply_error'] = out[-400:]
        else:
            rc, out = sh([PY, '-c', 'import importlib\nfor m in %r:\n    importlib.import_module("zope.testrunner." + m)' % (MODS,)],
                         env=env, cwd='/tmp')
            res['imports_ok'] = rc == 0
            if rc:
                res['import_error'] = out[-400:]
            res['demo_rc_patched'], o1 = sh([PY, demo], env=env, cwd='/tmp', timeout=300)
            res['demo_output_patched_tail'] = ' '.join(o1.strip().splitlines()[-4:])[-400:]
            res['pytest_patched'], _p = pytest_line(wt, env)
    finally:
        sh(['git', '-C', '/repo', 'worktree', 'remove', '--force', wt])
        shutil.rmtree(wt, ignore_errors=True)
    ok = (res.get('demo_rc_unpatched') == 0 and res.get('patch_applies_to_repo_head') and res.get('imports_ok')
          and res.get('demo_rc_patched') not in (0, 124, None) and res.get('pytest_unpatched') == res.get('pytest_patched'))
    print(mid, 'CONFIRMED' if ok else 'REJECT', json.dumps(res)[:900])
    if not ok:
        return 1
    dst = os.path.join(VERIF, 'seeded', mid)
    os.makedirs(dst, exist_ok=True)
    for f in ('patch.diff', 'demo.py', 'notes.md'):
        shutil.copy(os.path.join(src, f), os.path.join(dst, f))
    notes = open(os.path.join(src, 'notes.md')).read()
    m = re.search(r'(?is)(needed|needs|what is needed|to manifest)[^\n]*\n?(.{20,700}?)(\n\s*\n|\n#|\n\*\*|\Z)', notes)
    needs = re.sub(r'\s+', ' ', (m.group(0) if m else notes[:500])).strip()[:700]
    props = {json.loads(ln)['id']: json.loads(ln) for ln in open(os.path.join(VERIF, 'properties.jsonl'))}
    meta = {
        'id': mid, 'property': prop, 'property_title': props[prop]['title'], 'round': rnd,
        'origin': 'round %d: written by an independent sub-agent that saw only the property text, its own scratch worktrees of /repo and a short '
                  'list of the mechanisms earlier rounds had used for this property (to avoid them); nothing from /verif' % rnd,
        'needs_to_manifest': needs,
        'confirmed': dict(res, how='vt/confirm_seed.py: scratch worktree of /repo HEAD under /tmp (removed afterwards): demo.py before and after '
                                   '`git apply patch.diff`; pytest -q -p no:cacheprovider --timeout=900 --continue-on-collection-errors before and after '
                                   '(overlay interpreter that can import zope.interface, a superset of the 42 pinned tests); import of every '
                                   'zope.testrunner module with the patch applied'),
        'caught_by': [],
    }
    json.dump(meta, open(os.path.join(dst, 'meta.json'), 'w'), indent=1)
    return 0


if __name__ == '__main__':
    sys.exit(main())
