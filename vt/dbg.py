"""debug: run one harness call under CrossHair with pinned args; print native vs traced (result, LAST)."""
import importlib, json, os, sys, tempfile, subprocess
from vt import engine

def main():
    prop, hname = sys.argv[1], sys.argv[2]
    vec = json.loads(sys.argv[3])
    hmod = 'harness.' + prop.lower()
    H = importlib.import_module(hmod)
    h = [x for x in H.SPEC['harnesses'] if x['name'] == hname][0]
    wd = tempfile.mkdtemp()
    pins = ' and '.join('%s == %r' % (n, vec[n]) for n, _t in h['params'])
    engine.gen_wrapper(wd, 'w_dbg', hmod, h['fn'], h['params'], h['call'], [pins], 'True', fid=True)
    call_args = eval('(lambda *a: list(a))(%s)' % h['call'], dict(vec))
    job = dict(id='dbg', kind='fidelity', harness=hname, wmod='w_dbg', hmod=hmod, hfn=h['fn'], call_args=call_args,
               vec=vec, workdir=wd, verif=engine.VERIF, timeout=120, path_timeout=120)
    r = engine.run_job(job)
    r.pop('job'); r.pop('summaries', None)
    print(json.dumps(r, indent=1))

main()
