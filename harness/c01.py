"""C01 - tests run with exactly their layer stack set up; layers nest like a
stack; after a NotImplementedError tearDown the rest runs in fresh processes.

stack():    real Runner.run_tests / run_layer / setup_layer /
            tear_down_unneeded / order_by_bases / run_tests() in one process;
            resume_tests is replaced by a recorder (what is handed over).
stack_lb(): the whole real Runner.run() with loop-back children (resume after
            NotImplementedError, -j N): every process of the run is checked.
Symbolic: base relation, which layers own tests, setUp faults, tearDown
faults (raise / NotImplementedError), class or instance layers, -x, --repeat."""
import unittest

from zope.testrunner import runner as R

from vt import loopback as LB
from vt import runworld as RW
from vt import world as W
from vt.util import FakeGC, FakeTime, cb, ci, install_fake_pdb, untraced

R.time = FakeTime
R.gc = FakeGC
R.TestResult._exc_info_to_string = lambda self, err, test: 'traceback'
install_fake_pdb()
LAST = None
NAMES = ['L0', 'L1', 'L2']


def build(e10, e20, e21, su, td, inst, hooks=('st', 'st', 'st')):
    L0 = W.mk_layer('L0', (), su=su[0], td=td[0], hooks=hooks[0], instance=inst)
    L1 = W.mk_layer('L1', (L0,) if e10 else (), su=su[1], td=td[1], hooks=hooks[1], instance=inst)
    b2 = ([L1] if e21 else []) + ([L0] if e20 else [])
    L2 = W.mk_layer('L2', tuple(b2), su=su[2], td=td[2], hooks=hooks[2], instance=inst)
    bases = {'L0': set(), 'L1': {'L0'} if e10 else set(), 'L2': ({'L1'} if e21 else set()) | ({'L0'} if e20 else set())}
    return [L0, L1, L2], bases


def closure(bases):
    anc = {}

    def go(n):
        if n not in anc:
            s = set()
            for b in bases[n]:
                s.add(b)
                s |= go(b)
            anc[n] = s
        return anc[n]
    for n in bases:
        go(n)
    return anc


def check_pid(events, anc, su_fault, hooked, final_optional=True):
    """Stack discipline of one process.  events: (kind, name) in order."""
    up = []
    entered = {}
    tds = {}
    nie = False
    for kind, name in events:
        if kind == 'su':
            if nie:
                return 'layer %s set up after a tearDown raised NotImplementedError' % name
            if name in up:
                return 'setUp of %s while it is set up' % name
            missing = [b for b in anc[name] if b in hooked and b not in up]
            if missing:
                return 'setUp of %s while its bases %r are not set up' % (name, missing)
            if not su_fault[name]:
                up.append(name)
                entered[name] = entered.get(name, 0) + 1
        elif kind == 'td' or kind == 'td_nie':
            if name not in up:
                return 'tearDown of %s which is not set up' % name
            derived = [d for d in up if name in anc[d]]
            if derived:
                return 'tearDown of %s while derived %r still set up' % (name, derived)
            up.remove(name)
            tds[name] = tds.get(name, 0) + 1
            if kind == 'td_nie':
                nie = True
        elif kind == 'test':
            if nie:
                return 'test %s ran after a tearDown raised NotImplementedError' % name
            layer = 'L' + name[1]
            need = {x for x in (anc[layer] | {layer}) if x in hooked}
            if set(up) != need:
                return 'test %s ran with %r set up, expected %r' % (name, sorted(up), sorted(need))
    if up:
        return 'layers still set up at the end of the process: %r' % up
    for n, c in entered.items():
        if tds.get(n, 0) != c:
            return 'layer %s set up %d times but torn down %d times' % (n, c, tds.get(n, 0))
    return None


def pid_events(trace, pid, td_fault):
    out = []
    for e in trace:
        if e[0] != pid:
            continue
        if e[1] == 'su':
            out.append(('su', e[2]))
        elif e[1] == 'td':
            out.append(('td_nie' if td_fault[e[2]] == 2 else 'td', e[2]))
        elif e[1] == 'test':
            out.append(('test', e[2]))
    return out


def stack(e10, e20, e21, ht0, ht1, ht2, su0, su1, su2, td0, td1, td2, x, rep2, inst, pm=False):
    global LAST
    W.reset()
    e10, e20, e21, ht0, ht1, ht2, su0, su1, su2, x, rep2, inst = map(cb, (e10, e20, e21, ht0, ht1, ht2, su0, su1, su2, x, rep2, inst))
    pm = cb(pm)
    td = [ci(t, 0, 2) for t in (td0, td1, td2)]
    su = [int(su0), int(su1), int(su2)]
    ht = [ht0, ht1, ht2]
    with untraced():
        layers, bases = build(e10, e20, e21, su, td, inst)
        anc = closure(bases)
        lt = []
        for i in (2, 0, 1):        # discovery order differs from run order
            if ht[i]:
                lt.append((layers[i], [W.mk_test('t%da' % i, W.PASS), W.mk_test('t%db' % i, W.FAIL if i == 1 else W.PASS)]))
    o = RW.options((['-x'] if x else []) + (['--repeat', '2'] if rep2 else []) + (['-D'] if pm else []))
    r = RW.make_runner(o, lt)
    resumed = []

    def fake_resume(script_parts, options, features, layers_, failures, errors, skipped, cwd=None):
        resumed.extend(n for n, _l, _t in layers_)
        return 0
    orig = R.resume_tests
    R.resume_tests = fake_resume
    try:
        r.run_tests()
    finally:
        R.resume_tests = orig
    with untraced():
        su_fault = dict(zip(NAMES, su))
        td_fault = dict(zip(NAMES, td))
        ev = pid_events(W.TRACE, 0, td_fault)
        why = check_pid(ev, anc, su_fault, set(NAMES))
        if why is None:
            why = check_handover(ev, resumed, ht, anc, su_fault, x or pm)
    LAST = (e10, e20, e21, tuple(ht), tuple(su), tuple(td), x, rep2, inst, why, tuple(ev), tuple(resumed), pm)
    return why is None


def check_handover(ev, resumed, ht, anc, su_fault, x):
    """Every layer owning tests is either run here (its tests ran, or its
    stack could not be set up, or -x stopped the run) or handed to fresh
    processes - exactly once."""
    ran_here = []
    for k, n in ev:
        if k == 'test':
            ln = 'w.L' + n[1]
            if ln not in ran_here:
                ran_here.append(ln)
    if len(set(resumed)) != len(resumed):
        return 'layer handed over twice: %r' % (resumed,)
    if set(resumed) & set(ran_here):
        return 'layer both run here and handed over: %r' % (sorted(set(resumed) & set(ran_here)),)
    nie = any(k == 'td_nie' for k, n in ev)
    stopped = x and any(k == 'test' and n.endswith('1b') for k, n in ev)      # t1b fails
    for i, has in enumerate(ht):
        if not has:
            continue
        ln = 'w.L%d' % i
        setup_possible = not any(su_fault[a] for a in (anc['L%d' % i] | {'L%d' % i}))
        if ln in ran_here or ln in resumed:
            continue
        if not setup_possible or stopped or x:
            continue
        return 'layer %s neither run nor handed over' % ln
    if resumed and not nie:
        return 'layers handed to subprocesses without a NotImplementedError tearDown: %r' % (resumed,)
    return None


def stack_reach(*a):
    stack(*a)
    return LAST[9] is None and len(LAST[11]) >= 1 and any(k == 'test' for k, n in LAST[10])


# ---------------------------------------------------------------- five layers

import itertools  # noqa: E402

from vt.util import pick  # noqa: E402

POOL5 = ['La', 'Lb', 'Lc', 'Ld', 'Le']
PERM5 = list(itertools.permutations(range(5)))
OWN5 = [0b10000, 0b10110, 0b11111, 0b01001]      # which roles own tests (bit i = role i)


def stack5(p, topo, own, tdk):
    """A diamond whose apex has one more, unrelated base - roles 0 = shared base S, 1 = B1(S), 2 = B2(S), 3 = X, 4 = T(B1, B2, X)
    (topo 0) / T(X, B1, B2) (topo 1) / T(B1, X, B2) (topo 2) - under every naming of the five layers (names decide the
    order in which the runner visits bases).  tdk: 0 no fault, 1 the shared base's tearDown raises, 2 B1's tearDown raises
    NotImplementedError."""
    global LAST
    W.reset()
    naming = pick(PERM5, p)
    topo = ci(topo, 0, 2)
    own = pick(OWN5, own)
    tdk = ci(tdk, 0, 2)
    names = [POOL5[naming[i]] for i in range(5)]
    with untraced():
        td = [0] * 5
        if tdk == 1:
            td[0] = 1
        elif tdk == 2:
            td[1] = 2
        S = W.mk_layer(names[0], (), td=td[0], hooks='st')
        B1 = W.mk_layer(names[1], (S,), td=td[1], hooks='st')
        B2 = W.mk_layer(names[2], (S,), hooks='st')
        X = W.mk_layer(names[3], (), hooks='st')
        T = W.mk_layer(names[4], [(B1, B2, X), (X, B1, B2), (B1, X, B2)][topo], hooks='st')
        layers = [S, B1, B2, X, T]
        bases = {names[0]: set(), names[1]: {names[0]}, names[2]: {names[0]}, names[3]: set(), names[4]: {names[1], names[2], names[3]}}
        anc = closure(bases)
        lt = []
        for i in (4, 0, 2, 1, 3):
            if own >> i & 1:
                lt.append((layers[i], [W.mk_test('t%sa' % names[i][1], W.PASS), W.mk_test('t%sb' % names[i][1], W.PASS)]))
    o = RW.options([])
    r = RW.make_runner(o, lt)
    resumed = []

    def fake_resume(script_parts, options, features, layers_, failures, errors, skipped, cwd=None):
        resumed.extend(n for n, _l, _t in layers_)
        return 0
    orig = R.resume_tests
    R.resume_tests = fake_resume
    try:
        r.run_tests()
    finally:
        R.resume_tests = orig
    with untraced():
        su_fault = {n: 0 for n in names}
        td_fault = dict(zip(names, td))
        ev = pid_events(W.TRACE, 0, td_fault)
        why = check_pid(ev, anc, su_fault, set(names))
        if why is None:
            ran = [n for k, n in ev if k == 'test']
            for i in range(5):
                if own >> i & 1:
                    for sfx in 'ab':
                        c = ran.count('t%s%s' % (names[i][1], sfx))
                        handed = ('w.' + names[i]) in resumed
                        if c != (0 if handed else 1):
                            why = 'test t%s%s ran %d times (layer handed over: %s)' % (names[i][1], sfx, c, handed)
                            break
                if why:
                    break
        if why is None and resumed and tdk != 2:
            why = 'layers handed to subprocesses without a NotImplementedError tearDown: %r' % (resumed,)
    LAST = (tuple(names), topo, own, tdk, why, tuple(ev), tuple(resumed))
    return why is None


def stack5_reach(*a):
    stack5(*a)
    return LAST[4] is None and sum(1 for k, n in LAST[5] if k == 'su') >= 5 and sum(1 for k, n in LAST[5] if k in ('td', 'td_nie')) >= 5


PERM4 = list(itertools.permutations(range(4)))
POOL4 = ['La', 'Lb', 'Lc', 'Ld']
OWN4 = [0b1100, 0b1111, 0b1110, 0b1101]


def stackmi(p, bo, which, own, tdk):
    """Multiple inheritance with a follow-up layer that needs only one of the bases: roles 0 = A, 1 = B, 2 = AB(A, B) /
    AB(B, A) (bo), 3 = a layer derived from B (which 0) or from A (which 1); every naming of the four layers.  When the run
    moves from AB to the follow-up layer, the base it does not need has to be torn down although it was set up first."""
    global LAST
    W.reset()
    naming = pick(PERM4, p)
    bo, which = ci(bo, 0, 1), ci(which, 0, 1)
    own = pick(OWN4, own)
    tdk = ci(tdk, 0, 2)          # 0 none, 1 A's tearDown raises, 2 AB's tearDown raises
    names = [POOL4[naming[i]] for i in range(4)]
    with untraced():
        td = [0] * 4
        if tdk == 1:
            td[0] = 1
        elif tdk == 2:
            td[2] = 1
        A = W.mk_layer(names[0], (), td=td[0], hooks='st')
        B = W.mk_layer(names[1], (), hooks='st')
        AB = W.mk_layer(names[2], (A, B) if bo == 0 else (B, A), td=td[2], hooks='st')
        C = W.mk_layer(names[3], (B,) if which == 0 else (A,), hooks='st')
        layers = [A, B, AB, C]
        bases = {names[0]: set(), names[1]: set(), names[2]: {names[0], names[1]}, names[3]: {names[1] if which == 0 else names[0]}}
        anc = closure(bases)
        lt = []
        for i in (3, 0, 2, 1):
            if own >> i & 1:
                lt.append((layers[i], [W.mk_test('t%sa' % names[i][1], W.PASS), W.mk_test('t%sb' % names[i][1], W.PASS)]))
    o = RW.options([])
    r = RW.make_runner(o, lt)
    r.run_tests()
    with untraced():
        su_fault = {n: 0 for n in names}
        td_fault = dict(zip(names, td))
        ev = pid_events(W.TRACE, 0, td_fault)
        why = check_pid(ev, anc, su_fault, set(names))
        if why is None:
            ran = [n for k, n in ev if k == 'test']
            for i in range(4):
                if own >> i & 1 and (ran.count('t%sa' % names[i][1]), ran.count('t%sb' % names[i][1])) != (1, 1):
                    why = 'tests of layer %s ran %r times' % (names[i], (ran.count('t%sa' % names[i][1]), ran.count('t%sb' % names[i][1])))
                    break
    LAST = (tuple(names), bo, which, own, tdk, why, tuple(ev))
    return why is None


def stackmi_reach(*a):
    stackmi(*a)
    return LAST[5] is None and sum(1 for k, n in LAST[6] if k == 'td') >= 4


# ---------------------------------------------------------------- loop-back

LB_TESTS = {}


def stack_lb(e10, e20, e21, su1, td0, td1, td2, j):
    """Whole Runner.run() with real child side in-process. j: 0 sequential,
    2 = -j2, 3 = -j3.  All three layers own tests."""
    global LAST
    W.reset()
    e10, e20, e21, su1 = map(cb, (e10, e20, e21, su1))
    td = [ci(t, 0, 2) for t in (td0, td1, td2)]
    su = [0, int(su1), 0]
    j = ci(j, 0, 3)
    with untraced():
        layers, bases = build(e10, e20, e21, su, td, False)
        anc = closure(bases)
        tests = []
        for i in (2, 0, 1):
            tests.append(W.mk_test('t%da' % i, W.PASS, layer=layers[i]))

        def suites():
            return [unittest.TestSuite(tests)]
    LB.install()
    LB.reset(suites)
    with RW.Captured():
        r = LB.run_parent((['-j%d' % j] if j else []), suites)
    with untraced():
        su_fault = dict(zip(NAMES, su))
        td_fault = dict(zip(NAMES, td))
        pids = sorted({e[0] for e in W.TRACE})
        why = None
        per = {}
        for p in pids:
            ev = pid_events(W.TRACE, p, td_fault)
            per[p] = ev
            why = check_pid(ev, anc, su_fault, set(NAMES))
            if why:
                why = 'pid %d: %s' % (p, why)
                break
        if why is None:
            why = check_once(per, anc, su_fault, j)
        if why is None and LB.THREAD_EXC:
            why = 'exception in a runner thread: %r' % (LB.THREAD_EXC,)
    LAST = (e10, e20, e21, tuple(su), tuple(td), j, why, tuple(sorted((p, tuple(v)) for p, v in per.items())))
    return why is None


def check_once(per, anc, su_fault, j):
    """each test runs in exactly one process (if its stack can be set up);
    with -j nothing runs in the parent; a child runs one layer only."""
    seen = {}
    for p, ev in per.items():
        tl = {('L' + n[1]) for k, n in ev if k == 'test'}
        if p != 0 and len(tl) > 1:
            return 'child %d ran tests of several layers: %r' % (p, sorted(tl))
        if p == 0 and j >= 2 and ev:
            return 'parent of a -j run executed layer code: %r' % (ev,)
        for k, n in ev:
            if k == 'test':
                seen[n] = seen.get(n, 0) + 1
    for i in range(3):
        n = 't%da' % i
        possible = not any(su_fault[a] for a in (anc['L%d' % i] | {'L%d' % i}))
        if seen.get(n, 0) != (1 if possible else 0):
            return 'test %s ran %d times over all processes (stack can be set up: %s)' % (n, seen.get(n, 0), possible)
    return None


def stack_lb_reach(*a):
    stack_lb(*a)
    return LAST[6] is None and len(LAST[7]) >= 3


_P = [('e10', 'bool'), ('e20', 'bool'), ('e21', 'bool'), ('ht0', 'bool'), ('ht1', 'bool'), ('ht2', 'bool'),
      ('su0', 'bool'), ('su1', 'bool'), ('su2', 'bool'), ('td0', 'int'), ('td1', 'int'), ('td2', 'int'),
      ('x', 'bool'), ('rep2', 'bool'), ('inst', 'bool'), ('pm', 'bool')]
_C = ', '.join(n for n, _ in _P)
_B = '0 <= td0 <= 2 and 0 <= td1 <= 2 and 0 <= td2 <= 2 and (ht0 or ht1 or ht2)'
_F1 = ' and su0 + su1 + su2 + (td0 != 0) + (td1 != 0) + (td2 != 0) <= 1'
_F2 = ' and su0 + su1 + su2 + (td0 != 0) + (td1 != 0) + (td2 != 0) <= 2'
_PL = [('e10', 'bool'), ('e20', 'bool'), ('e21', 'bool'), ('su1', 'bool'), ('td0', 'int'), ('td1', 'int'), ('td2', 'int'), ('j', 'int')]
_CL = ', '.join(n for n, _ in _PL)
_BL = '0 <= td0 <= 2 and 0 <= td1 <= 2 and 0 <= td2 <= 2 and (j == 0 or j == 2 or j == 3)'


def _v(**kw):
    v = dict(e10=True, e20=False, e21=True, ht0=True, ht1=True, ht2=True, su0=False, su1=False, su2=False,
             td0=0, td1=0, td2=0, x=False, rep2=False, inst=False, pm=False)
    v.update(kw)
    return v


def _vl(**kw):
    v = dict(e10=True, e20=False, e21=False, su1=False, td0=2, td1=0, td2=0, j=0)
    v.update(kw)
    return v


def _edge_slices(extra=('',)):
    out = []
    for a in ('e10', 'not e10'):
        for b in ('e20', 'not e20'):
            for c in ('e21', 'not e21'):
                for x in extra:
                    out.append(' and '.join(s for s in (a, b, c, x) if s))
    return out


SPEC = {
    'property': 'C01',
    'encoded': ['zope.testrunner.runner.Runner.run_tests', 'Runner.ordered_layers', 'runner.run_layer', 'runner.setup_layer',
                'runner.tear_down_unneeded', 'runner.gather_layers', 'runner.order_by_bases', 'runner.layer_sort_key',
                'runner.run_tests', 'runner.TestResult', 'runner.resume_tests', 'runner.spawn_layer_in_subprocess',
                'Runner.run / configure / features (child side via loop-back)', 'process.SubProcess', 'filter.Filter.global_setup'],
    'files': ['src/zope/testrunner/runner.py', 'src/zope/testrunner/layer.py', 'src/zope/testrunner/process.py',
              'src/zope/testrunner/filter.py'],
    'stubs': ['stack(): runner.resume_tests -> recorder of the layers handed over', 'stack_lb(): runner.subprocess.Popen -> LoopbackPopen '
              '(real child Runner.run() in-process, logical pid), runner.threading.Thread -> synchronous thread, runner.get_options '
              'evaluated untraced on concrete argv', 'runner.time / statistics.time / shuffle.time, runner.gc',
              'unittest.TestResult._exc_info_to_string -> constant'],
    'assumptions': ['every layer defines setUp and tearDown (a layer without hooks emits nothing observable)'],
    'outside': ['real OS processes', 'MemoryError / KeyboardInterrupt from layer hooks', '-D with a real debugger session (pdb is stubbed: the debugger returns at once)', 'layer graphs other than all graphs on 3 layers and the five-layer diamond with one more unrelated base'],
    'harnesses': [
        {'name': 'stack', 'fn': 'stack', 'params': _P, 'call': _C,
         'bounds': {'quick': _B + _F2 + ' and not inst and not (x and rep2) and (not pm or (not x and not rep2 and su0 + su1 + su2 + (td0 != 0) + (td1 != 0) + (td2 != 0) <= 1))', 'thorough': _B + ' and su0 + su1 + su2 + (td0 != 0) + (td1 != 0) + (td2 != 0) <= 3 and (not pm or not x)'},
         'slices': {'quick': _edge_slices(('x', 'not x')),
                    'thorough': _edge_slices(('x and inst', 'x and not inst', 'not x and inst', 'not x and not inst'))},
         'reach': 'stack_reach', 'reach_bounds': {'quick': _B + _F1 + ' and not inst and not x and not rep2 and ht0 and ht1 and ht2',
                                                  'thorough': _B + _F1 + ' and not inst and not x and not rep2 and ht0 and ht1 and ht2'},
         'timeout': {'quick': 240, 'thorough': 850},
         'fidelity': [_v(), _v(td1=2, e21=False), _v(su0=True, td2=1, x=True, inst=True), _v(e10=False, e20=True, td0=2, rep2=True), _v(pm=True), _v(pm=True, su1=True, e21=False)]},
        {'name': 'stack_lb', 'fn': 'stack_lb', 'params': _PL, 'call': _CL,
         'bounds': {'quick': _BL + ' and su1 + (td0 != 0) + (td1 != 0) + (td2 != 0) <= 2',
                    'thorough': _BL},
         'slices': {'quick': _edge_slices(('j == 0', 'j == 2', 'j == 3')), 'thorough': _edge_slices(('j == 0', 'j == 2', 'j == 3'))},
         'reach': 'stack_lb_reach', 'reach_bounds': {'quick': _BL + ' and not su1 and j == 0 and not e10 and not e20 and not e21',
                                                     'thorough': _BL + ' and not su1 and j == 0 and not e10 and not e20 and not e21'},
         'timeout': {'quick': 240, 'thorough': 850},
         'fidelity': [_vl(), _vl(j=2, td0=0, td2=1)]},
        {'name': 'stackmi', 'fn': 'stackmi', 'params': [('p', 'int'), ('bo', 'int'), ('which', 'int'), ('own', 'int'), ('tdk', 'int')], 'call': 'p, bo, which, own, tdk',
         'bounds': {'quick': '0 <= p < 24 and 0 <= bo <= 1 and 0 <= which <= 1 and 0 <= own < 4 and 0 <= tdk <= 2 and own <= 1 and tdk == 0',
                    'thorough': '0 <= p < 24 and 0 <= bo <= 1 and 0 <= which <= 1 and 0 <= own < 4 and 0 <= tdk <= 2'},
         'slices': {'quick': ['p %% 4 == %d' % m for m in range(4)], 'thorough': ['p %% 4 == %d and own == %d' % (m, w_) for m in range(4) for w_ in range(4)]},
         'reach': 'stackmi_reach', 'reach_bounds': {'quick': 'p == 0 and bo == 0 and which == 0 and own == 1 and tdk == 0', 'thorough': 'p == 0 and bo == 0 and which == 0 and own == 1 and tdk == 0'},
         'timeout': {'quick': 240, 'thorough': 850},
         'fidelity': [dict(p=0, bo=0, which=0, own=1, tdk=0), dict(p=17, bo=1, which=1, own=0, tdk=1), dict(p=23, bo=0, which=1, own=3, tdk=2)]},
        {'name': 'stack5', 'fn': 'stack5', 'params': [('p', 'int'), ('topo', 'int'), ('own', 'int'), ('tdk', 'int')], 'call': 'p, topo, own, tdk',
         'bounds': {'quick': '0 <= p < 120 and 0 <= topo <= 2 and 0 <= own < 4 and 0 <= tdk <= 2 and own == 0 and tdk == 0',
                    'thorough': '0 <= p < 120 and 0 <= topo <= 2 and 0 <= own < 4 and 0 <= tdk <= 2'},
         'slices': {'quick': ['p %% 8 == %d' % m for m in range(8)],
                    'thorough': ['p %% 8 == %d and own == %d' % (m, w_) for m in range(8) for w_ in range(4)]},
         'reach': 'stack5_reach', 'reach_bounds': {'quick': 'p == 0 and topo == 0 and own == 0 and tdk == 0', 'thorough': 'p == 0 and topo == 0 and own == 0 and tdk == 0'},
         'timeout': {'quick': 240, 'thorough': 850},
         'fidelity': [dict(p=0, topo=0, own=0, tdk=0), dict(p=77, topo=1, own=2, tdk=1), dict(p=119, topo=2, own=1, tdk=2)]},
    ],
}
