"""C07 - subprocess result channel: nothing lost, nothing partial trusted,
the child is always reaped, no exception is lost in the worker thread.

chan():  the real child side (process.SubProcess.report) produces the honest
         report bytes for a symbolic (ran, failing names, erroring names); the
         real parent side (runner.spawn_layer_in_subprocess, complete,
         including its finally) reads them through a GrammarPopen whose
         stdout/stderr streams are assembled from symbolic choices: noise
         lines before the report, a truncation offset over the whole report
         (every byte offset, by solver case split), transport faults.
Symbolic: ran, number and spelling (pool) of failure / error names, number and
kind of noise lines, cut offset, fault kind, verbosity, stdout lines."""
import errno
import types

from zope.testrunner import process as P
from zope.testrunner import runner as R

from vt import runworld as RW
from vt import world as W
from vt.util import FakeTime, Stream, cb, ci, pick, untraced

R.time = FakeTime
LAST = None

NAMES = ['mod.T.test_a', 'test_b (pkg.mod.TestCase)', 'tëst_ü (x.Y)', 'first line\nsecond line', '  padded (a.B)  ',
         'x' * 5000, '/path/to/doc.rst',
         # characters that are line boundaries for str.splitlines() but not for bytes.splitlines()
         'sep\u2028inside (a.B)', 'nel\x85inside (a.B)', 'vt\x0binside ff\x0cinside (a.B)']
NOISE = [b'Some warning text\n', b'Traceback (most recent call last):\n  File "x.py", line 3, in f\n', b'\n', b'\xff\xfe not utf-8\n',
         b'3 items\n', b'1 2\n', b'12 0 0 0\n',
         # lines that merely end in / contain three integers
         b'progress 1 2 3\n', b'3 0 0 tests\n',
         # look-alikes of the header (known finding region)
         b'0 0 0\n', b'7 1 1\n']
N_PLAIN_NOISE = 9
FAULTS = ['none', 'spawn', 'eintr_once', 'eio_once', 'stderr_empty', 'no_newline_end']
LAYER = 'w.L1'


class FakeTest:
    def __init__(self, name):
        self.name = name

    def __str__(self):
        return self.name

    def __ch_deep_realize__(self, memo):
        return self


def honest_report(ran, fails, errs, nimp=0):
    """Bytes the real child writes to its original stderr."""
    import sys
    runner = types.SimpleNamespace(ran=ran, failures=[(FakeTest(n), None) for n in fails],
                                   errors=[(FakeTest(n), None) for n in errs],
                                   import_errors=[FakeTest('broken.module%d' % i) for i in range(nimp)], skipped=[],
                                   options=types.SimpleNamespace(resume_layer=LAYER, processes=1))
    sp = P.SubProcess(runner)
    sp.original_stderr = Stream()
    saved = sys.stdout
    sys.stdout = Stream()
    try:
        sp.report()
    finally:
        sys.stdout = saved
    return sp.original_stderr.getvalue().encode('utf-8')


class OutPipe:
    def __init__(self, lines, fault):
        self.lines = list(lines)
        self.fault = fault
        self.raised = False

    def readline(self):
        if self.fault in ('eintr_once', 'eio_once') and not self.raised and len(self.lines) <= 1:
            self.raised = True
            raise OSError(errno.EINTR if self.fault == 'eintr_once' else errno.EIO, 'injected')
        return self.lines.pop(0) if self.lines else b''

    def close(self):
        pass

    def __ch_deep_realize__(self, memo):
        return self


class ErrPipe:
    def __init__(self, data):
        self.data = data

    def read(self):
        return self.data

    def close(self):
        pass

    def __ch_deep_realize__(self, memo):
        return self


STATE = {}


class GrammarPopen:
    def __init__(self, args, **kw):
        STATE['spawned'] = STATE.get('spawned', 0) + 1
        STATE['args'] = list(args)
        if STATE['fault'] == 'spawn':
            raise OSError(2, 'No such file or directory (injected)')
        self.stdout = OutPipe(STATE['stdout'], STATE['fault'])
        self.stderr = ErrPipe(STATE['stderr'])
        STATE['child'] = self
        self.killed = self.reaped = 0

    def kill(self):
        self.killed += 1

    def communicate(self):
        self.reaped += 1
        return b'', b''

    def __ch_deep_realize__(self, memo):
        return self


class SyncThread:
    def __init__(self, target=None, args=(), kwargs=None):
        self.target, self.args = target, args
        self.daemon = False

    def start(self):
        self.target(*self.args)

    def join(self, timeout=None):
        pass

    def is_alive(self):
        return False

    def __ch_deep_realize__(self, memo):
        return self


class Result(R.AbstractSubprocessResult):
    def __init__(self):
        R.AbstractSubprocessResult.__init__(self, LAYER, None)
        self.lines = []

    def write(self, out):
        self.lines.append(out)

    def __ch_deep_realize__(self, memo):
        return self


def expected_name(n):
    return ' '.join(n.strip().split('\n')).strip()


def chan(ran, nf, f0, f1, ne, e0, e1, nn, k0, k1, cut, fault, verbose, nout, nimp=0):
    global LAST
    W.reset()
    STATE.clear()
    ran = ci(ran, 0, 3)
    nf, ne, nn = ci(nf, 0, 2), ci(ne, 0, 2), ci(nn, 0, 2)
    fails = [pick(NAMES, x) for x in (f0, f1)[:nf]]
    errs = [pick(NAMES, x) for x in (e0, e1)[:ne]]
    noise = [pick(NOISE, x) for x in (k0, k1)[:nn]]
    fault = pick(FAULTS, fault)
    verbose = ci(verbose, 0, 2)
    nout = ci(nout, 0, 2)
    with untraced():
        o = RW.options(['-' + 'v' * verbose] if verbose else [])
        o.processes = 1
    nimp = ci(nimp, 0, 1)       # modules the child could not import (it rediscovers the tree)
    report = honest_report(ran, fails, errs, nimp)
    full = b''.join(noise) + report
    # cut: -1 = complete; otherwise the child died after `cut` bytes of its report
    if cut < 0:
        delivered = full
        cutc = -1
    else:
        cutc = None
        for c in range(len(report)):          # solver case split over every offset
            if cut == c:
                cutc = c
                break
        if cutc is None:           # offset beyond this report: nothing to decide
            LAST = ('vacuous',)
            return True
        delivered = b''.join(noise) + report[:cutc]
    if fault == 'stderr_empty':
        delivered = b''
    elif fault == 'no_newline_end':
        delivered = delivered.rstrip(b'\n') if cutc == -1 else delivered
    STATE['fault'] = fault
    STATE['stderr'] = delivered
    STATE['stdout'] = [b'  Ran %d tests\n' % ran, b'...\n'][:nout]
    R.subprocess = types.SimpleNamespace(Popen=GrammarPopen, PIPE=-1)
    R.threading = types.SimpleNamespace(Thread=SyncThread)
    result = Result()
    failures, errors, skipped = [], [], []
    escaped = None
    try:
        R.spawn_layer_in_subprocess(result, ['t'], o, [], LAYER, None, failures, errors, skipped, 0)
    except Exception as e:      # would be lost in the worker thread
        escaped = type(e).__name__
    with untraced():
        why = oracle(ran, fails, errs, noise, report, cutc, fault, delivered, full, result, failures, errors, escaped, nout)
    LAST = (ran, tuple(n[:12] for n in fails), tuple(n[:12] for n in errs), tuple(noise), cutc, fault, verbose, nout, why,
            result.num_ran, tuple(str(n)[:14] for n, _ in failures), tuple(str(n)[:24] for n, _ in errors))
    return why is None


def oracle(ran, fails, errs, noise, report, cutc, fault, delivered, full, result, failures, errors, escaped, nout):
    if escaped:
        return 'exception %s escaped from the worker (lost in its thread, nothing recorded)' % escaped
    if not result.done:
        return 'result.done not set: the parent would wait for ever'
    child = STATE.get('child')
    if fault != 'spawn':
        if child is None or child.killed < 1 or child.reaped < 1:
            return 'child not killed and reaped'
    layer_errors = [n for n, _ in errors if isinstance(n, str) and LAYER in n and n.startswith('subprocess')]
    names_f = [n for n, _ in failures]
    names_e = [n for n, _ in errors if n not in layer_errors]
    exp_f = [expected_name(n) for n in fails]
    exp_e = [expected_name(n) for n in errs]
    lost = (fault in ('spawn', 'stderr_empty')) or (cutc != -1 and delivered.splitlines() != full.splitlines()) \
        or (cutc != -1 and delivered != full and (fails or errs))
    if fault == 'no_newline_end' and cutc == -1 and (fails or errs):
        lost = True        # the last name lacks its terminator: the report was cut inside its last byte
    if lost:
        if not layer_errors:
            return 'report lost or cut short (%r) but no error recorded for the layer; parent recorded ran=%r failures=%r errors=%r' % (
                fault if cutc == -1 else 'cut at %d of %d' % (cutc, len(report)), result.num_ran, names_f, names_e)
        return None
    # complete report delivered
    if layer_errors:
        return 'complete report but an error was recorded for the layer'
    if result.num_ran != ran:
        return 'num_ran %r, child ran %r' % (result.num_ran, ran)
    if names_f != exp_f or names_e != exp_e:
        return 'names recorded %r / %r, child reported %r / %r' % (names_f, names_e, exp_f, exp_e)
    # the parent keeps draining the child's stdout until EOF, also after a transient read error: a parent that stops reading lets a
    # child with more output than the pipe holds block for ever (and the parent with it, in stderr_thread.join())
    if fault in ('none', 'eintr_once', 'eio_once', 'no_newline_end') and len(result.lines) != nout:
        return 'stdout lines relayed %d, child wrote %d: the parent stopped draining the child\'s stdout' % (len(result.lines), nout)
    return None


def chan_reach(*a):
    chan(*a)
    return len(LAST) > 1 and LAST[8] is None and LAST[4] == -1 and len(LAST[10]) == 2 and len(LAST[11]) == 1 and len(LAST[3]) == 1


def reap(n, d0, d1, d2, g0, g1, g2):
    """The parent terminates and counts every child's tests whatever the order in which the worker threads die (the real
    resume_tests under the C06 schedule model: symbolic durations / lags, several deaths inside one poll included)."""
    global LAST
    from harness import c06
    ok = c06.sched(n, 0, False, d0, d1, d2, g0, g1, g2, 0, 0, 0)
    LAST = ('reap',) + tuple(c06.LAST[:6])
    return ok


_P = [('ran', 'int'), ('nf', 'int'), ('f0', 'int'), ('f1', 'int'), ('ne', 'int'), ('e0', 'int'), ('e1', 'int'), ('nn', 'int'), ('k0', 'int'),
      ('k1', 'int'), ('cut', 'int'), ('fault', 'int'), ('verbose', 'int'), ('nout', 'int'), ('nimp', 'int')]
_C = ', '.join(n for n, _ in _P)
_NN = len(NAMES)
_B = ('0 <= ran <= 3 and 0 <= nf <= 2 and 0 <= ne <= 2 and 0 <= nn <= 2 and 0 <= f0 < %d and 0 <= f1 < %d and 0 <= e0 < %d and 0 <= e1 < %d '
      'and 0 <= k0 < %d and 0 <= k1 < %d and cut >= -1 and 0 <= fault < %d and 0 <= verbose <= 2 and 0 <= nout <= 2 and 0 <= nimp <= 1'
      % (_NN, _NN, _NN, _NN, len(NOISE), len(NOISE), len(FAULTS)))
# canonical form of unused slots (no duplicate paths)
_CANON = ' and (nf >= 1 or f0 == 0) and (nf >= 2 or f1 == 0) and (ne >= 1 or e0 == 0) and (ne >= 2 or e1 == 0) and (nn >= 1 or k0 == 0) and (nn >= 2 or k1 == 0)'
_FIX = ' and ran == 3 and nout == 1 and (nf < 2 or f1 == 1) and (ne < 2 or e1 == 0)'
# complete report: spelling of one failure name (or of one error name when there is no failure) is symbolic
_Q_COMPLETE = (_B + _CANON + _FIX + ' and (nimp == 0 or (nn == 0 and f0 <= 1 and e0 <= 2)) and cut == -1 and verbose == 0 and nn <= 1 and k0 < %d and f0 != 5 and e0 != 5 and (nf == 0 or ne == 0 or e0 == 2)' % N_PLAIN_NOISE)
# report cut at every byte offset: fixed spellings, symbolic counts, optional noise line
_Q_CUT = (_B + _CANON + _FIX + ' and nimp == 0 and 0 <= cut < 80 and verbose == 0 and (fault == 0 or fault == 2) and nn <= 1 and (k0 == 0 or k0 == 4) '
          'and (nf == 0 or f0 == 0) and (ne == 0 or e0 == 2)')
# message building on the error paths (-v / -vv, noise incl. undecodable bytes)
_Q_VERB = (_B + _CANON + _FIX + ' and nimp == 0 and cut == -1 and 1 <= verbose <= 2 and (fault == 0 or fault == 4 or fault == 1) and k0 < %d and k1 < %d '
           'and nf == 1 and f0 == 0 and ne == 1 and e0 == 2' % (N_PLAIN_NOISE, N_PLAIN_NOISE))
_T_COMPLETE = _B + _CANON + ' and (nf < 2 or f1 == 1) and (ne < 2 or e1 == 0) and cut == -1 and k0 < %d and k1 < %d and nn <= 1 and verbose == 0 and (ran == 0 or ran == 3) and nout <= 1' % (N_PLAIN_NOISE, N_PLAIN_NOISE)
_T_CUT = (_B + _CANON + ' and 0 <= cut < 120 and verbose == 0 and (fault == 0 or fault == 2 or fault == 3) and nn <= 1 and k0 < %d '
          'and (nf == 0 or f0 == 0 or f0 == 3) and (nf < 2 or f1 == 1) and (ne == 0 or e0 == 2) and (ne < 2 or e1 == 0) and ran == 3 and nout == 1 and nimp == 0' % N_PLAIN_NOISE)
_T_VERB = (_B + _CANON + ' and cut == -1 and 1 <= verbose <= 2 and k0 < %d and k1 < %d and nf <= 1 and (nf == 0 or f0 == 3) and ne <= 1 and (ne == 0 or e0 == 5) '
           'and ran == 3' % (N_PLAIN_NOISE, N_PLAIN_NOISE))


def _v(**kw):
    v = dict(ran=3, nf=2, f0=0, f1=1, ne=1, e0=2, e1=0, nn=1, k0=0, k1=0, cut=-1, fault=0, verbose=0, nout=1, nimp=0)
    v.update(kw)
    return v


SPEC = {
    'property': 'C07',
    'encoded': ['zope.testrunner.runner.resume_tests (reap(): reaping of worker threads, sum of num_ran)', 'zope.testrunner.runner.spawn_layer_in_subprocess (complete: argv, reader thread, stdout relay loop, header and name parser, '
                'error paths, finally)', 'zope.testrunner.process.SubProcess.report (child side, produces the honest bytes)',
                'runner.AbstractSubprocessResult'],
    'files': ['src/zope/testrunner/runner.py', 'src/zope/testrunner/process.py'],
    'stubs': ['runner.subprocess.Popen -> GrammarPopen: stdout lines / stderr bytes assembled from symbolic grammar choices; kill()/communicate() '
              'counted', 'runner.threading.Thread -> synchronous thread (the stderr reader)', 'options.output -> recorder',
              'OSError(EINTR) / OSError(EIO) raised once by stdout.readline()'],
    'assumptions': ['test ids contain no carriage return / form feed (bytes.splitlines would split them; not in the property\'s quantifier)',
                    'a transient read error does not repeat for ever (a persistent OSError other than EINTR makes the relay loop spin - stated, not claimed)'],
    'outside': ['pipe-capacity deadlock and signal delivery (real OS pipes / real concurrency of the reader thread)',
                'raw symbolic bytes (probed: not confirmed in 120 s for 6 bytes) - the stream is a grammar over pools',
                'more than 2 failure and 2 error names, more than 2 noise lines'],
    'harnesses': [
        {'name': 'complete', 'fn': 'chan', 'params': _P, 'call': _C,
         'bounds': {'quick': _Q_COMPLETE, 'thorough': _T_COMPLETE},
         'slices': {'quick': ['fault == %d and nf == %d' % (f, a) for f in range(len(FAULTS)) for a in range(3)],
                    'thorough': ['fault == %d and nf == %d and ne == %d' % (f, a, b) for f in range(len(FAULTS)) for a in range(3) for b in range(3)]},
         'reach': 'chan_reach', 'reach_bounds': {'quick': _B + ' and fault == 0 and cut == -1 and verbose == 0 and nout == 1 and ran == 3 and k0 == 0',
                                                 'thorough': _B + ' and fault == 0 and cut == -1 and verbose == 0 and nout == 1 and ran == 3 and k0 == 0'},
         'timeout': {'quick': 300, 'thorough': 1500},
         'fidelity': [_v(), _v(fault=1), _v(f0=3, f1=4, e0=5, verbose=2, fault=2), _v(nn=2, k0=3, k1=1, fault=3), _v(nimp=1, nn=0)]},
        {'name': 'cut', 'fn': 'chan', 'params': _P, 'call': _C,
         'bounds': {'quick': _Q_CUT, 'thorough': _T_CUT},
         'slices': {'quick': ['nf == %d and ne == %d and %s' % (a, b, c) for a in range(3) for b in range(3) for c in ('cut < 25', 'cut >= 25')],
                    'thorough': ['nf == %d and ne == %d and fault == %d and nn == %d' % (a, b, f, n) for a in range(3) for b in range(3) for f in (0, 2, 3) for n in (0, 1)]},
         'timeout': {'quick': 300, 'thorough': 1500},
         'fidelity': [_v(cut=9, nn=0), _v(cut=0), _v(cut=20, fault=2, ne=2, e1=0)]},
        {'name': 'verbose', 'fn': 'chan', 'params': _P, 'call': _C,
         'bounds': {'quick': _Q_VERB, 'thorough': _T_VERB},
         'slices': {'quick': ['verbose == %d and nn == %d' % (vb, n) for vb in (1, 2) for n in range(3)],
                    'thorough': ['verbose == %d and nn == %d and fault == %d' % (vb, n, f) for vb in (1, 2) for n in range(3) for f in range(len(FAULTS))]},
         'timeout': {'quick': 300, 'thorough': 1500},
         'fidelity': [_v(verbose=2, fault=4, nn=2, k0=3, k1=1, nf=1, f0=0, f1=1, ne=1)]},
        {'name': 'reap', 'fn': 'reap', 'params': [('n', 'int')] + [('d%d' % i, 'int') for i in range(3)] + [('g%d' % i, 'int') for i in range(3)],
         'call': 'n, d0, d1, d2, g0, g1, g2',
         'bounds': {'quick': '2 <= n <= 3 and ' + ' and '.join('1 <= d%d <= 2 and 0 <= g%d <= 1' % (i, i) for i in range(3)),
                    'thorough': '1 <= n <= 4 and ' + ' and '.join('1 <= d%d <= 3 and 0 <= g%d <= 2' % (i, i) for i in range(3))},
         'slices': {'quick': ['n == %d' % n for n in (2, 3)], 'thorough': ['n == %d and d0 == %d' % (n, d) for n in range(1, 5) for d in (1, 2, 3)]},
         'timeout': {'quick': 300, 'thorough': 1500},
         'fidelity': [dict(n=3, d0=1, d1=1, d2=2, g0=0, g1=0, g2=1)]},
    ],
}
