"""Driving the real Runner over a world of layers and tests (in-process part)."""
import sys
import unittest

from zope.testrunner import formatter as FM
from zope.testrunner import runner as R
from zope.testrunner.find import _layer_name_cache, name_from_layer
from zope.testrunner.options import get_options

from vt import world as W
from vt.util import KeepBytes, TextOut, untraced

_OPT = {}


def options(argv, real_formatter=False, out_cls=None):
    """Real get_options on a concrete argv (cached, untraced); every call
    returns a fresh copy with a fresh output object."""
    key = tuple(argv)
    with untraced():
        if key not in _OPT:
            _OPT[key] = get_options(['t'] + list(argv), [])
        o = type(_OPT[key])()
        o.__dict__.update(_OPT[key].__dict__)
        o.original_testrunner_args = ['t'] + list(argv)
        if out_cls is not None:
            o.output = out_cls(o)
        elif real_formatter:
            o.output = FM.OutputFormatter(o)
        else:
            o.output = RecOut()
    o.resume_layer = None
    o.resume_number = 0
    o.testrunner_defaults = []
    return o


class RecOut:
    """Null output that records the calls the oracles need."""

    def __init__(self, *a):
        self.calls = []

    def summary(self, **kw):
        W.ev('summary', kw['n_tests'], kw['n_failures'], kw['n_errors'], kw['n_skipped'])

    def totals(self, **kw):
        W.ev('totals', kw['n_tests'], kw['n_failures'], kw['n_errors'], kw['n_skipped'])

    def start_test(self, test, *a):
        W.ev('start', str(test))

    def stop_test(self, test, *a):
        W.ev('stop', str(test))

    def tests_with_errors(self, errors):
        W.ev('errors_list', tuple(str(t) for t, _ in errors))

    def tests_with_failures(self, failures):
        W.ev('failures_list', tuple(str(t) for t, _ in failures))

    def list_of_tests(self, tests, layer_name):
        W.ev('list', layer_name, tuple(str(t) for t in tests))

    def error(self, msg):
        W.ev('out_error', msg if isinstance(msg, str) else '?')

    def error_with_banner(self, msg):
        W.ev('out_error', msg if isinstance(msg, str) else '?')

    def __getattr__(self, n):
        if n.startswith('__'):
            raise AttributeError(n)
        return lambda *a, **k: None

    def __ch_deep_realize__(self, memo):
        return self


class RecFormatter(FM.OutputFormatter):
    """The real text formatter; additionally records summary() calls."""

    def summary(self, n_tests, n_failures, n_errors, n_seconds, n_skipped=0):
        W.ev('summary', n_tests, n_failures, n_errors, n_skipped)
        return FM.OutputFormatter.summary(self, n_tests, n_failures, n_errors, n_seconds, n_skipped)

    def totals(self, n_tests, n_failures, n_errors, n_seconds, n_skipped=0):
        W.ev('totals', n_tests, n_failures, n_errors, n_skipped)
        return FM.OutputFormatter.totals(self, n_tests, n_failures, n_errors, n_seconds, n_skipped)

    def __ch_deep_realize__(self, memo):
        return self


class RecColorFormatter(FM.ColorfulOutputFormatter):
    """The real colourising formatter (-c); additionally records summary() calls."""

    def summary(self, n_tests, n_failures, n_errors, n_seconds, n_skipped=0):
        W.ev('summary', n_tests, n_failures, n_errors, n_skipped)
        return FM.ColorfulOutputFormatter.summary(self, n_tests, n_failures, n_errors, n_seconds, n_skipped)

    def __ch_deep_realize__(self, memo):
        return self


def make_runner(o, layer_tests):
    """layer_tests: list of (layer, [tests]) in *discovery* order."""
    r = R.Runner(options=o, args=['t'], script_parts=['t'])
    r.features = []
    _layer_name_cache.clear()
    tbl = {}
    for layer, tests in layer_tests:
        tbl[name_from_layer(layer)] = unittest.TestSuite(tests)
        for b in getattr(layer, '__mro__', ())[1:-1]:
            name_from_layer(b)
    r.tests_by_layer_name = tbl
    return r


class Captured:
    """Context manager: route sys.stdout/sys.stderr into one byte buffer
    through two distinct TextIOWrapper objects (like real streams: no
    getvalue())."""

    def __enter__(self):
        with untraced():
            self.raw = KeepBytes()
            self.out = TextOut(self.raw, encoding='utf-8', write_through=True, errors='backslashreplace')
            self.err = TextOut(self.raw, encoding='utf-8', write_through=True, errors='backslashreplace')
        self.saved = (sys.stdout, sys.stderr, sys.stdin)
        sys.stdout, sys.stderr = self.out, self.err
        return self

    def __exit__(self, *a):
        self.at_exit = (sys.stdout, sys.stderr)
        sys.stdout, sys.stderr, sys.stdin = self.saved
        return False

    def text(self):
        return self.raw.value().decode('utf-8', 'replace')
