"""C17 - XML reports are well-formed and agree with the run.

report(): real runner.run_tests() + TestResult with options.output =
          the real XMLOutputFormattingWrapper around a recording delegate, then
          the real writeXMLReports() with the real ElementTree; formatter.open
          is captured; every report text is parsed back with expat and
          compared with the events of the run.
chars():  a string of <= 2 characters drawn from a pool of every boundary
          of the XML Char production (and neighbours, and the XML-special
          characters) is placed in the exception message or in the test id;
          after the real writeXMLReports() has built the tree, every string
          ElementTree is asked to serialise must consist of XML 1.0 Chars.
          (A free symbolic str through the sanitiser's re.sub is out of
          CrossHair's reach: probed, 12 paths / 240 s solver time, not
          confirmed.)  The step from the pool to all of Unicode is the lemma
          L-XMLCLASS: z3 shows over all code points 0..0x10FFFF that the
          character class of the *current* formatter._not_xml_chars regex is
          exactly the complement of the XML Char production.
Symbolic: outcome kinds of 3 tests incl. failing subtests, unexpected success,
body+tearDown error; --repeat; import error; the characters."""
import sys
import types
import unittest
from xml.etree import ElementTree as RealET

from zope.testrunner import formatter as FM
from zope.testrunner import runner as R
from zope.testrunner.find import name_from_layer

from vt import runworld as RW
from vt import world as W
from vt.util import FakeGC, FakeTime, cb, ci, pick, untraced

R.time = FakeTime
R.gc = FakeGC
LAST = None
KINDS = [W.PASS, W.FAIL, W.ERROR, W.XPASS, W.SKIP_BODY, W.XFAIL, W.SUBFAIL2, W.ERR_TD, W.SUB_ERR, W.SKIP_DECO, W.CLEANUP_ERR]
FILES = {}


class FakeFile:
    """A text file opened for writing.  Opened without an explicit encoding it uses the locale's encoding, of which only
    the ASCII range is guaranteed (LC_ALL=C): writing anything else raises UnicodeEncodeError, as the real file would."""

    def __init__(self, name, encoding=None, errors=None):
        self.name = name
        self.encoding = encoding
        self.errors = errors
        self.parts = []

    def write(self, t):
        if self.encoding is None or self.encoding.lower().replace('-', '') in ('ascii', 'usascii'):
            if self.errors in (None, 'strict'):
                t.encode('ascii')
        self.parts.append(t)

    def __enter__(self):
        return self

    def __exit__(self, *a):
        FILES[self.name] = ''.join(self.parts)
        return False


def fake_open(name, mode='r', buffering=-1, encoding=None, errors=None, *a, **k):
    assert 'w' in mode
    return FakeFile(str(name), encoding, errors)


class FakeFolder:
    def __init__(self, path='/reports'):
        self.path = path

    def __truediv__(self, other):
        return FakeFolder(self.path + '/' + other)

    def mkdir(self, *a, **k):
        pass

    def __str__(self):
        return self.path

    def __ch_deep_realize__(self, memo):
        return self


class FakeDT:
    @staticmethod
    def now():
        return types.SimpleNamespace(isoformat=lambda: '2026-01-01T00:00:00')


def _real(v):
    """CrossHair quirk: '%'-formatting and slicing may hand over lazily-symbolic strings (always concrete here), which
    the C serialiser of ElementTree rejects ("write() argument must be str, not LazyIntSymbolicStr").  Realise; a no-op natively."""
    try:
        from crosshair.core import realize
        from crosshair.tracers import is_tracing
        if is_tracing():
            return realize(v)
    except ImportError:
        pass
    return v


class RElement(RealET.Element):
    """xml.etree.ElementTree.Element whose attribute values and text are realised strings (see _real)."""

    def set(self, key, value):
        RealET.Element.set(self, _real(key), _real(value))

    def __setattr__(self, name, value):
        if name in ('text', 'tail') and value is not None:
            value = _real(value)
        RealET.Element.__setattr__(self, name, value)


class RealizingET:
    """formatter.ElementTree: the real module with Element -> RElement."""
    Element = RElement
    indent = staticmethod(RealET.indent)
    tostring = staticmethod(RealET.tostring)


FM.ElementTree = RealizingET
FM.open = fake_open
FM.datetime = FakeDT
FM.socket = types.SimpleNamespace(gethostname=lambda: 'host')


def real_id(t):
    return unittest.TestCase.id(t)


def mk(name, kind, exc=0, idtext=None, msg=None):
    t = W.mk_test(name, kind, exc=exc)
    cls = type(t)
    if idtext is not None:
        cls.id = lambda self: 'w.T_%s.' % name + idtext
    else:
        cls.id = real_id
    return t


def run_world(tests, rep2, buf=False):
    W.reset()
    FILES.clear()
    with untraced():
        A = W.mk_layer('A', (), hooks='')
        o = RW.options((['--repeat', '2'] if rep2 else []) + (['--buffer'] if buf else []))
    name_from_layer(A)
    delegate = o.output
    o.output = FM.XMLOutputFormattingWrapper(delegate, folder=FakeFolder())
    failures, errors, skipped = [], [], []
    R.run_tests(o, unittest.TestSuite(tests), 'w.A', failures, errors, skipped, [])
    return o


def _write(o):
    try:
        o.output.writeXMLReports()
    except Exception as e:
        import os, traceback
        if os.environ.get('VERIF_DEBUG'):
            traceback.print_exc(file=sys.__stderr__)
        return 'writing the reports raised %s: no (complete) report files' % type(e).__name__
    return None


def report(k0, k1, k2, rep2, e1, buf=False):
    global LAST
    ks = [pick(KINDS, k) for k in (k0, k1, k2)]
    rep2, buf = cb(rep2), cb(buf)
    e1 = ci(e1, 0, 3)
    with untraced():
        tests = [mk('t0', ks[0]), mk('t1', ks[1], exc=e1), mk('t2', ks[2], idtext='runTest \xe9\u4e2d')]      # a test id outside ASCII
    R.TestResult._exc_info_to_string = lambda self, err, test: 'traceback'
    o = run_world(tests, rep2, buf)
    failed = _write(o)
    with untraced():
        why = failed or oracle(ks, rep2)
    LAST = (tuple(W.KIND_NAMES[k] for k in ks), rep2, e1, why, tuple(sorted(FILES)), buf)
    return why is None


def oracle(ks, rep2):
    rep = 2 if rep2 else 1
    suites = {}
    for fname, text in FILES.items():
        try:
            root = RealET.fromstring(text)
        except RealET.ParseError as e:
            return 'report %s is not well-formed: %s' % (fname, e)
        if root.tag != 'testsuite':
            return 'root element of %s is %s' % (fname, root.tag)
        suites[root.get('name')] = root
        cases = root.findall('testcase')
        if int(root.get('tests')) != len(cases):
            return '%s: tests=%s but %d testcase elements' % (fname, root.get('tests'), len(cases))
        if int(root.get('errors')) != len(root.findall('testcase/error')):
            return '%s: errors=%s but %d error elements' % (fname, root.get('errors'), len(root.findall('testcase/error')))
        if int(root.get('failures')) != len(root.findall('testcase/failure')):
            return '%s: failures=%s but %d failure elements' % (fname, root.get('failures'), len(root.findall('testcase/failure')))
        if not fname.endswith('/testreports/%s.xml' % root.get('name')):
            return 'suite %s written to %s' % (root.get('name'), fname)
    for i, k in enumerate(ks):
        cls = 'w.T_t%d' % i
        root = suites.get(cls)
        n_pass = rep if k in (W.PASS, W.XFAIL) else 0
        n_fail = W.N_FAIL.get(k, 0) * rep
        n_err = (W.N_ERR.get(k, 0) + (1 if k == W.XPASS else 0)) * rep
        if root is None:
            if n_pass or n_fail or n_err:
                return 'no suite %s in the reports %r' % (cls, sorted(suites))
            continue
        cases = root.findall('testcase')
        for c in cases:
            if c.get('classname') != cls:
                return 'testcase of %s carries classname %r' % (cls, c.get('classname'))
            nm = c.get('name')
            if not (nm == 'runTest' or nm.startswith('runTest ')):
                return 'testcase of %s carries name %r' % (cls, nm)
        plain = [c for c in cases if c.find('error') is None and c.find('failure') is None]
        if len(plain) != n_pass:
            return '%s (%s): %d plain testcase elements, passed %d times' % (cls, W.KIND_NAMES[k], len(plain), n_pass)
        if len(root.findall('testcase/failure')) != n_fail:
            return '%s (%s): %d failure elements, %d failure events' % (cls, W.KIND_NAMES[k], len(root.findall('testcase/failure')), n_fail)
        if len(root.findall('testcase/error')) != n_err:
            return '%s (%s): %d error elements, %d error events' % (cls, W.KIND_NAMES[k], len(root.findall('testcase/error')), n_err)
    extra = set(suites) - {'w.T_t0', 'w.T_t1', 'w.T_t2'}
    if extra:
        return 'reports for suites that are no test class of the run: %r' % sorted(extra)
    return None


def report_reach(*a):
    report(*a)
    return LAST[3] is None and len(LAST[4]) == 3 and 'two-failing-subtests' in LAST[0] and 'unexpected-success' in LAST[0]


# ------------------------------------------------------------------ doctest cases

import doctest  # noqa: E402

doctest.DocTestCase.__ch_deep_realize__ = lambda self, memo: self
doctest.DocTestCase.__deepcopy__ = lambda self, memo: self
DOC_PASS, DOC_WRONG, DOC_RAISE, DOC_NASTY = range(4)
DOC_KINDS = ['doctest-pass', 'doctest-wrong-output', 'doctest-example-raises', 'doctest-output-with-NUL-and-]]>']
DOC_TEXT = {
    DOC_PASS: '>>> 1 + 1\n2\n',
    DOC_WRONG: '>>> 1 + 1\n3\n',
    DOC_RAISE: '>>> {}["<missing&key>"]\n0\n',
    DOC_NASTY: '>>> print("a" + chr(0) + "]]>" + chr(0xFFFF) + chr(0xD800) + "<b>&")\nx\n',
}


def mk_doc_world(kd0, kd1, kf, name_dots):
    """Two DocTestCases taken from the __test__ table of an in-memory module
    (names w.docmod.__test__.alpha / .beta) and one DocFileCase built the way
    doctest.DocFileTest builds it (parser.get_doctest over a text), named after
    a file below a directory that shares only the root with the cwd."""
    m = types.ModuleType('w.docmod')
    m.__file__ = '/w/docmod.py'
    m.__test__ = {'alpha': 'alpha\n\n' + DOC_TEXT[kd0], 'beta': 'beta\n\n' + DOC_TEXT[kd1]}     # distinct objects: the finder skips an object it has seen
    suite = doctest.DocTestSuite(m)
    docs = sorted((t for t in suite), key=lambda t: t._dt_test.name)
    fname = 'sample.v1.txt' if name_dots else 'sample.txt'
    dt = doctest.DocTestParser().get_doctest(DOC_TEXT[kf], {}, fname, '/w/pkg/tests/' + fname, 0)
    fc = doctest.DocFileCase(dt)
    return docs + [fc]


def doccases(kd0, kd1, kf, ku, rep2, buf, name_dots):
    """XML reports of a layer that mixes doctest cases (module doctests, a doc
    file case) with a unittest case."""
    global LAST
    kd0, kd1, kf = ci(kd0, 0, 3), ci(kd1, 0, 3), ci(kf, 0, 3)
    ku = pick([W.PASS, W.FAIL, W.ERROR], ku)
    rep2, buf, name_dots = cb(rep2), cb(buf), cb(name_dots)
    with untraced():
        tests = mk_doc_world(kd0, kd1, kf, name_dots) + [mk('t0', ku)]
    R.TestResult._exc_info_to_string = lambda self, err, test: 'traceback'
    o = run_world(tests, rep2, buf)
    failed = _write(o)
    with untraced():
        why = failed or doc_oracle((kd0, kd1, kf), ku, rep2, 'sample.v1.txt' if name_dots else 'sample.txt')
    LAST = (tuple(DOC_KINDS[k] for k in (kd0, kd1, kf)), W.KIND_NAMES[ku], rep2, buf, why, tuple(sorted(FILES)))
    return why is None


def doc_oracle(kds, ku, rep2, fname):
    rep = 2 if rep2 else 1
    cases = []          # (report file, classname, name, n failure children, n error children)
    for f, text in FILES.items():
        base = f.rsplit('/testreports/', 1)
        if len(base) != 2 or '/' in base[1] or not base[1].endswith('.xml'):
            return 'report written outside the report directory: %r' % f
        try:
            root = RealET.fromstring(text)
        except RealET.ParseError as e:
            return 'report %s is not well-formed: %s' % (f, e)
        cs = root.findall('testcase')
        if int(root.get('tests')) != len(cs):
            return '%s: tests=%s but %d testcase elements' % (f, root.get('tests'), len(cs))
        if int(root.get('errors')) != len(root.findall('testcase/error')):
            return '%s: errors=%s but %d error elements' % (f, root.get('errors'), len(root.findall('testcase/error')))
        if int(root.get('failures')) != len(root.findall('testcase/failure')):
            return '%s: failures=%s but %d failure elements' % (f, root.get('failures'), len(root.findall('testcase/failure')))
        for c in cs:
            cases.append((f, c.get('classname'), c.get('name'), len(c.findall('failure')), len(c.findall('error'))))
    # every doctest: once per iteration, under a name that identifies it, with a failure child iff it failed
    want = [('w.docmod.__test__.alpha', kds[0], lambda cn, nm: cn + '.' + nm == 'w.docmod.__test__.alpha'),
            ('w.docmod.__test__.beta', kds[1], lambda cn, nm: cn + '.' + nm == 'w.docmod.__test__.beta'),
            (fname, kds[2], lambda cn, nm: nm == fname)]
    used = set()
    for label, k, match in want:
        mine = [i for i, c in enumerate(cases) if match(c[1], c[2])]
        if len(mine) != rep:
            return 'doctest %s (%s): %d testcase elements carry its name, ran %d time(s): %r' % (label, DOC_KINDS[k], len(mine), rep, [cases[i][:3] for i in mine])
        for i in mine:
            used.add(i)
            nf, ne = cases[i][3], cases[i][4]
            if k == DOC_PASS and (nf or ne):
                return 'passing doctest %s reported with a failure/error child' % label
            if k != DOC_PASS and nf + ne != 1:
                return 'failing doctest %s (%s): %d failure and %d error children' % (label, DOC_KINDS[k], nf, ne)
    unit = [i for i, c in enumerate(cases) if c[1] == 'w.T_t0' and c[2] == 'runTest']
    if len(unit) != rep:
        return 'unittest case t0: %d testcase elements, ran %d time(s)' % (len(unit), rep)
    for i in unit:
        used.add(i)
        nf, ne = cases[i][3], cases[i][4]
        if (nf, ne) != ((1, 0) if ku == W.FAIL else (0, 1) if ku == W.ERROR else (0, 0)):
            return 'unittest case t0 (%s): %d failure and %d error children' % (W.KIND_NAMES[ku], nf, ne)
    if len(used) != len(cases):
        return 'testcase elements that belong to no test of the run: %r' % [c[:3] for i, c in enumerate(cases) if i not in used]
    return None


def doccases_reach(*a):
    doccases(*a)
    return LAST[4] is None and len(LAST[5]) >= 3 and 'doctest-output-with-NUL-and-]]>' in LAST[0]


# ------------------------------------------------------------------ reports of runs that use several processes

class MemPath:
    """pathlib.Path stand-in over the in-memory report files (runner.Path): the report directory of a run, shared by
    the parent and every layer subprocess, as the real directory is."""

    def __init__(self, p):
        self.p = str(p)

    def resolve(self):
        return self

    def mkdir(self, *a, **k):
        pass

    def __truediv__(self, other):
        return MemPath(self.p.rstrip('/') + '/' + str(other))

    def glob(self, pattern):
        import fnmatch
        pref = self.p.rstrip('/') + '/'
        return [MemPath(f) for f in sorted(FILES) if f.startswith(pref) and fnmatch.fnmatch(f[len(pref):], pattern)]

    def iterdir(self):
        return self.glob('*')

    def exists(self):
        return self.p in FILES or any(f.startswith(self.p.rstrip('/') + '/') for f in FILES)

    def is_dir(self):
        return self.p not in FILES

    def unlink(self, missing_ok=False):
        if self.p not in FILES and not missing_ok:
            raise FileNotFoundError(self.p)
        FILES.pop(self.p, None)

    def __str__(self):
        return self.p

    __fspath__ = __str__

    def __ch_deep_realize__(self, memo):
        return self


XKINDS = [W.PASS, W.FAIL, W.ERROR, W.XPASS, W.SUBFAIL2]


def xmlmodes(mode, ka, kb):
    """--xml in runs that use several processes (layers resumed after a layer that cannot be torn down, -j N): every
    process writes the reports of the tests it ran into the same directory; afterwards every test that passed appears
    exactly once, every failure / error as a testcase of its own class, in well-formed files."""
    global LAST
    from vt import fullrun as FR
    mode = pick(['seq', 'nie', 'j2', 'j3', 'j1'], mode)
    ka, kb = pick(XKINDS, ka), pick(XKINDS, kb)
    with untraced():
        kinds = {'a0': W.PASS, 'a1': ka, 'b0': kb, 'b1': W.PASS, 'x0': W.PASS, 'u0': W.PASS}
        world = FR.World(kinds, td={'A': 2} if mode == 'nie' else {}, order=['b0', 'a0', 'x0', 'u0', 'b1', 'a1'])
        for t in world.tests:
            type(t).id = real_id
    FILES.clear()
    saved = R.Path
    R.Path = MemPath
    try:
        res = FR.run(world, mode, argv=['--xml', '/reports'])
    finally:
        R.Path = saved
    with untraced():
        why = None
        if res.escaped or res.thread_exc:
            why = 'exception %r / %r' % (res.escaped, res.thread_exc)
        suites = {}
        if why is None:
            for fname, text in FILES.items():
                try:
                    root = RealET.fromstring(text)
                except RealET.ParseError as e:
                    why = 'report %s is not well-formed: %s' % (fname, e)
                    break
                if root.get('name') in suites:
                    why = 'two report files for suite %s' % root.get('name')
                    break
                suites[root.get('name')] = root
        if why is None:
            for n, k in sorted(kinds.items()):
                cls = 'w.T_' + n
                root = suites.get(cls)
                if root is None:
                    why = 'test %s (%s) ran, but the report directory holds no report for %s: %r' % (n, W.KIND_NAMES[k], cls, sorted(FILES))
                    break
                cases = root.findall('testcase')
                nf, ne = len(root.findall('testcase/failure')), len(root.findall('testcase/error'))
                want_f = W.N_FAIL.get(k, 0)
                want_e = W.N_ERR.get(k, 0) + (1 if k == W.XPASS else 0)
                plain = [c for c in cases if c.find('failure') is None and c.find('error') is None]
                if (len(plain), nf, ne) != (1 if k == W.PASS else 0, want_f, want_e):
                    why = 'suite %s (%s): %d plain testcases, %d failures, %d errors' % (cls, W.KIND_NAMES[k], len(plain), nf, ne)
                    break
                if int(root.get('tests')) != len(cases) or int(root.get('failures')) != nf or int(root.get('errors')) != ne:
                    why = 'suite %s: attributes tests/failures/errors do not equal the element counts' % cls
                    break
                if any(c.get('classname') != cls for c in cases):
                    why = 'suite %s holds testcases of other classes' % cls
                    break
    LAST = ('xmlmodes', mode, W.KIND_NAMES[ka], W.KIND_NAMES[kb], why, tuple(sorted(FILES)), len(res.children))
    return why is None


def xmlmodes_reach(*a):
    xmlmodes(*a)
    return LAST[4] is None and LAST[6] >= 2 and len(LAST[5]) == 6


# ------------------------------------------------------------------ characters

STRINGS = []


def is_xml_char(c):
    o = ord(c)
    return o in (9, 10, 13) or 0x20 <= o <= 0xD7FF or 0xE000 <= o <= 0xFFFD or 0x10000 <= o <= 0x10FFFF


class SpyET:
    """formatter.ElementTree replacement: the real module, but tostring()
    first records every string it is asked to serialise."""
    Element = RealET.Element
    indent = staticmethod(RealET.indent)

    @staticmethod
    def tostring(node, *a, **k):
        for n in node.iter():
            if n.text:
                STRINGS.append(n.text)
            if n.tail:
                STRINGS.append(n.tail)
            for kk, v in n.attrib.items():
                STRINGS.append(v)
        return b'<done/>'


POOL = [0x00, 0x08, 0x09, 0x0A, 0x0B, 0x0C, 0x0D, 0x0E, 0x1F, 0x20, ord('<'), ord('&'), ord('>'), ord('"'), ord("'"), ord(']'), 0x7F, 0x85, 0xA0,
        0xD7FF, 0xD800, 0xDBFF, 0xDC00, 0xDFFF, 0xE000, 0xFFFD, 0xFFFE, 0xFFFF, 0x10000, 0x1FFFE, 0x1FFFF, 0x10FFFF, ord('a'), 0xE9]


def chars_pool(n, i, j, where, kind):
    """String of n <= 2 characters drawn from POOL (every boundary of the XML
    Char production and its neighbours, the XML-special characters)."""
    n = ci(n, 0, 2)
    s = ''.join(chr(pick(POOL, x)) for x in (i, j)[:n])
    return chars(s, where, kind)


def chars(s, where, kind):
    """s: Unicode string."""
    global LAST
    where = ci(where, 0, 2)       # 0 exception message, 1 test id, 2 message, second line
    kind = pick([W.FAIL, W.ERROR, W.SUBFAIL2], kind)
    del STRINGS[:]
    R.TestResult._exc_info_to_string = lambda self, err, test: 'traceback'

    class T(unittest.TestCase):
        def runTest(self):
            text = s if where == 0 else ('first\n' + s if where == 2 else 'plain')
            if kind == W.FAIL:
                raise W.MyAssertS(text)
            if kind == W.ERROR:
                raise W.Boom(text)
            with self.subTest(i=1):
                raise W.Boom(text)

        def id(self):
            return 'w.T.' + (s if where == 1 else 'runTest')

        def __str__(self):
            return 'runTest (w.T)'

        def __ch_deep_realize__(self, memo):
            return self
    T.__module__ = 'w'
    T.__qualname__ = 'T'
    orig = FM.ElementTree
    FM.ElementTree = SpyET
    try:
        o = run_world([T()], False)
        o.output.writeXMLReports()
    finally:
        FM.ElementTree = orig
    ok = True
    bad = None
    for st in STRINGS:
        for c in st:
            if not is_xml_char(c):
                ok = False
                bad = 'U+%04X' % ord(c)
                break
        if not ok:
            break
    LAST = (where, W.KIND_NAMES[kind], ok, bad, len(STRINGS))
    return ok


def chars_reach(*a):
    chars_pool(*a)
    return LAST[2] and LAST[4] >= 8


def class_lemma():
    """L-XMLCLASS (z3, linear integer arithmetic over code points): the
    character class of formatter._not_xml_chars - taken from the regex object
    of the current source and parsed with Python's own regex parser - matches
    exactly the code points that are NOT an XML 1.0 Char."""
    import time
    import z3
    try:
        import re._parser as sp
        import re._constants as sc
    except ImportError:
        import sre_parse as sp
        import sre_constants as sc
    rx = getattr(FM, '_not_xml_chars', None)
    if rx is None:
        return {'applicable': False, 'reason': 'formatter._not_xml_chars not present'}
    parsed = list(sp.parse(rx.pattern))
    if len(parsed) != 1 or parsed[0][0] != sc.IN:
        return {'applicable': False, 'reason': 'pattern is not a single character class: %r' % rx.pattern}
    c = z3.Int('c')
    items = list(parsed[0][1])
    negate = bool(items and items[0][0] == sc.NEGATE)
    if negate:
        items = items[1:]
    alts = []
    for op, arg in items:
        if op == sc.LITERAL:
            alts.append(c == arg)
        elif op == sc.RANGE:
            alts.append(z3.And(c >= arg[0], c <= arg[1]))
        else:
            return {'applicable': False, 'reason': 'unsupported class item %r' % (op,)}
    member = z3.Or(*alts) if alts else z3.BoolVal(False)
    if negate:
        member = z3.Not(member)
    xml_char = z3.Or(c == 9, c == 10, c == 13, z3.And(c >= 0x20, c <= 0xD7FF), z3.And(c >= 0xE000, c <= 0xFFFD), z3.And(c >= 0x10000, c <= 0x10FFFF))
    s = z3.Solver()
    s.add(c >= 0, c <= 0x10FFFF, member == xml_char)      # a code point on which class and "not an XML Char" disagree
    t0 = time.time()
    r = str(s.check())
    out = {'applicable': True, 'pattern': rx.pattern.encode('unicode_escape').decode(), 'verdict': r, 'solver_s': round(time.time() - t0, 3), 'queries': 1}
    if r == 'sat':
        out['counterexample_codepoint'] = s.model()[c].as_long()
    return out


def extra_evidence(tier):
    lem = class_lemma()
    if lem.get('applicable') and lem['verdict'] != 'unsat':
        raise RuntimeError('L-XMLCLASS refuted or undecided: %r' % (lem,))
    return {'lemma_L_XMLCLASS': lem}


_P = [('k0', 'int'), ('k1', 'int'), ('k2', 'int'), ('rep2', 'bool'), ('e1', 'int'), ('buf', 'bool')]
_C = ', '.join(n for n, _ in _P)
_NK = len(KINDS)
# e1 selects the exception class raised by t1's error kinds: ValueError, KeyError, Boom (index 2, an AssertionError subclass, is excluded -
# unittest files it under failures, the kind would no longer be an 'error')
_B = '0 <= k0 < %d and 0 <= k1 < %d and 0 <= k2 < %d and 0 <= e1 <= 3 and e1 != 2' % (_NK, _NK, _NK)


def _v(**kw):
    v = dict(k0=0, k1=1, k2=2, rep2=False, e1=0, buf=False)
    v.update(kw)
    return v


SPEC = {
    'property': 'C17',
    'encoded': ['zope.testrunner.formatter.XMLOutputFormattingWrapper.test_failure / test_error / test_success / _record / writeXMLReports',
                'formatter.parse_unittest / parse_startup_failure / parse_doc_* / get_test_class_name', 'formatter.xml_safe',
                'xmlmodes(): Runner.run / configure (--xml wrapper, report directory) in the parent and in loop-back children', 'zope.testrunner.runner.run_tests', 'runner.TestResult.addSubTest / addError / addFailure / addUnexpectedSuccess / addExpectedFailure'],
    'files': ['src/zope/testrunner/formatter.py', 'src/zope/testrunner/runner.py', 'src/zope/testrunner/process.py'],
    'stubs': ['formatter.open -> in-memory capture; a file opened without an explicit encoding accepts ASCII only (the locale encoding is not under the runner\'s control)', 'formatter.datetime / formatter.socket -> constants', 'report folder -> path-like fake (xmlmodes(): runner.Path -> in-memory directory shared by all processes of the run)',
              'chars(): formatter.ElementTree -> real Element/indent, tostring() records every string handed over for serialisation',
              'runner.time, runner.gc; unittest.TestResult._exc_info_to_string -> constant'],
    'assumptions': ['ElementTree escapes & < > " correctly and expat decides well-formedness (trusted stdlib)',
                    'the traceback text placed in the report comes from traceback.format_tb of harness frames (ASCII); arbitrary characters are injected through the message and the id'],
    'outside': ['manuel cases; doc file cases below the current working directory (their suite name is derived from the cwd)', 'injected strings longer than 2 characters (the sanitiser works per character)',
                'more than 3 tests'],
    'harnesses': [
        {'name': 'report', 'fn': 'report', 'params': _P, 'call': _C,
         'bounds': {'quick': _B + ' and e1 == 0 and k2 == 0 and (k1 <= 1 or not rep2) and (not buf or not rep2)', 'thorough': _B + ' and (e1 == 0 or k1 == 2)'},
         'slices': {'quick': ['k0 == %d' % k for k in range(_NK)],
                    'thorough': ['k0 == %d and k1 == %d' % (k, j) for k in range(_NK) for j in range(_NK)]},
         'reach': 'report_reach', 'reach_bounds': {'quick': _B + ' and e1 == 0 and not rep2 and k0 == 6 and k1 == 3', 'thorough': _B + ' and e1 == 0 and not rep2 and k0 == 6 and k1 == 3'},
         'timeout': {'quick': 300, 'thorough': 1500},
         'fidelity': [_v(), _v(k0=6, k1=3, k2=7, rep2=True), _v(k0=8, k1=9, k2=10, e1=3), _v(k0=1, k1=6, k2=2, buf=True)]},
        {'name': 'chars', 'fn': 'chars_pool', 'params': [('n', 'int'), ('i', 'int'), ('j', 'int'), ('where', 'int'), ('kind', 'int')], 'call': 'n, i, j, where, kind',
         'bounds': {'quick': '0 <= n <= 1 and 0 <= i < %d and j == 0 and 0 <= where <= 2 and 0 <= kind <= 2' % len(POOL),
                    'thorough': '0 <= n <= 2 and 0 <= i < %d and 0 <= j < %d and (n == 2 or j == 0) and 0 <= where <= 1 and 0 <= kind <= 1' % (len(POOL), len(POOL))},
         'slices': {'quick': ['where == %d and kind == %d and i %% 2 == %d' % (w_, k, m) for w_ in range(3) for k in range(3) for m in range(2)],
                    'thorough': ['where == %d and kind == %d and i %% 8 == %d' % (w_, k, m) for w_ in range(2) for k in range(2) for m in range(8)]},
         'reach': 'chars_reach', 'reach_bounds': {'quick': 'n == 1 and 0 <= i < 3 and j == 0 and where == 0 and kind == 0', 'thorough': 'n == 1 and 0 <= i < 3 and j == 0 and where == 0 and kind == 0'},
         'timeout': {'quick': 300, 'thorough': 1500},
         'fidelity': [dict(n=1, i=0, j=0, where=0, kind=0), dict(n=2, i=32, j=20, where=1, kind=1), dict(n=2, i=10, j=11, where=2, kind=2), dict(n=0, i=0, j=0, where=0, kind=0)]},
        {'name': 'xmlmodes', 'fn': 'xmlmodes', 'params': [('mode', 'int'), ('ka', 'int'), ('kb', 'int')], 'call': 'mode, ka, kb',
         'bounds': {'quick': '0 <= mode <= 4 and 0 <= ka < %d and 0 <= kb < %d and kb <= 1 and (mode <= 2 or ka <= 1)' % (len(XKINDS), len(XKINDS)),
                    'thorough': '0 <= mode <= 4 and 0 <= ka < %d and 0 <= kb < %d' % (len(XKINDS), len(XKINDS))},
         'slices': {'quick': ['mode == %d' % m for m in range(5)], 'thorough': ['mode == %d and ka == %d' % (m, k) for m in range(5) for k in range(len(XKINDS))]},
         'reach': 'xmlmodes_reach', 'reach_bounds': {'quick': 'mode == 2 and ka == 1 and kb == 0', 'thorough': 'mode == 2 and ka == 1 and kb == 0'},
         'timeout': {'quick': 300, 'thorough': 1500},
         'fidelity': [dict(mode=1, ka=1, kb=2), dict(mode=2, ka=4, kb=3), dict(mode=0, ka=0, kb=0)]},
        {'name': 'doccases', 'fn': 'doccases',
         'params': [('kd0', 'int'), ('kd1', 'int'), ('kf', 'int'), ('ku', 'int'), ('rep2', 'bool'), ('buf', 'bool'), ('name_dots', 'bool')],
         'call': 'kd0, kd1, kf, ku, rep2, buf, name_dots',
         'bounds': {'quick': '0 <= kd0 <= 3 and 0 <= kd1 <= 3 and 0 <= kf <= 3 and 0 <= ku <= 2 and kd1 <= 1 and ku <= 1 and not (rep2 and buf) and (not name_dots or (kd0 == 0 and not rep2 and not buf))',
                    'thorough': '0 <= kd0 <= 3 and 0 <= kd1 <= 3 and 0 <= kf <= 3 and 0 <= ku <= 2'},
         'slices': {'quick': ['kd0 == %d and kf %% 2 == %d' % (k, m) for k in range(4) for m in range(2)],
                    'thorough': ['kd0 == %d and kf == %d' % (k, m) for k in range(4) for m in range(4)]},
         'reach': 'doccases_reach',
         'reach_bounds': {'quick': 'kd0 == 3 and kd1 == 0 and kf == 1 and ku == 0 and not rep2 and not buf and not name_dots',
                          'thorough': 'kd0 == 3 and kd1 == 0 and kf == 1 and ku == 0 and not rep2 and not buf and not name_dots'},
         'timeout': {'quick': 300, 'thorough': 1500},
         'fidelity': [dict(kd0=0, kd1=0, kf=0, ku=0, rep2=False, buf=False, name_dots=False),
                      dict(kd0=3, kd1=1, kf=2, ku=1, rep2=True, buf=False, name_dots=False),
                      dict(kd0=1, kd1=0, kf=3, ku=2, rep2=False, buf=True, name_dots=True)]},
    ],
}
