"""C08 - filter predicate: any positive match, no negated match; order
independent; monotone.  The truth value of "pattern p matches name v in
search mode" is an *uninterpreted* boolean per (pattern, value): one run
covers every regex and every name at once.  The regex engine is trusted."""
import unittest

from zope.testrunner import filter as FL
from zope.testrunner import find as F
from zope.testrunner.options import get_options

from vt.util import cb, pick, untraced

LAST = None
M = {}            # (pattern, value) -> bool   (symbolic)
USED = []


class FakePat:
    """Stands for re.compile(p).  Only .search exists: any other matcher
    method (match, fullmatch, ...) raises AttributeError -> harness failure."""

    def __init__(self, p):
        self.p = p

    def search(self, v):
        USED.append((self.p, str(v)))
        if self.p == '' or self.p == '.':
            return True            # axiom: names are non-empty, so '' and '.' match
        return M.get((self.p, str(v)), False)     # a name nobody announced: recorded in USED, checked by the caller

    def __ch_deep_realize__(self, memo):
        return self


class _FakeRe:
    @staticmethod
    def compile(p, flags=0):
        if flags:
            raise AssertionError('unexpected flags')
        return FakePat(p)


FL.re = _FakeRe
POOL = ['a', 'b', 'c', '', '.']
PPOOL = ['a', 'b', 'c', 'a ', ' b']      # plumb(): patterns whose edges are blanks are patterns of their own (test ids contain blanks)
PERMS3 = [(0, 1, 2), (0, 2, 1), (1, 0, 2), (1, 2, 0), (2, 0, 1), (2, 1, 0)]


def _oracle(pats, name):
    pos = [p for p in pats if not p.startswith('!')]
    neg = [p[1:] for p in pats if p.startswith('!')]

    def m(p):
        return True if p in ('', '.') else M[(p, name)]
    pos_hit = False
    for p in pos:
        if m(p):
            pos_hit = True
    neg_hit = False
    for p in neg:
        if m(p):
            neg_hit = True
    return (pos_hit or not pos) and not neg_hit


def flt(n, i0, i1, i2, i3, g0, g1, g2, g3, ma, mb, mc, perm, xi, xg):
    """n patterns (pool index + '!' flag each); ma/mb/mc = does pattern
    a/b/c match NAME; perm permutes the first three; (xi, xg) is one more
    pattern appended for the monotonicity comparison."""
    global LAST
    del USED[:]
    M.clear()
    M.update({('a', 'NAME'): ma, ('b', 'NAME'): mb, ('c', 'NAME'): mc})
    idx = [i0, i1, i2, i3][:n]
    neg = [g0, g1, g2, g3][:n]
    pats = []
    for i, g in zip(idx, neg):
        pats.append(('!' if g else '') + pick(POOL, i))
    accept = FL.build_filtering_func(list(pats))
    got = cb(accept('NAME'))
    exp = cb(_oracle(pats, 'NAME'))
    ok = got == exp
    # order independence
    pm = pick(PERMS3, perm)
    head = pats[:3]
    if len(head) == 3:
        shuffled = [head[pm[0]], head[pm[1]], head[pm[2]]] + pats[3:]
    else:
        shuffled = pats[::-1]
    got_p = cb(FL.build_filtering_func(shuffled)('NAME'))
    ok = ok and got_p == got
    # monotonicity: one more pattern
    extra = ('!' if xg else '') + pick(POOL, xi)
    got_x = cb(FL.build_filtering_func(pats + [extra])('NAME'))
    has_pos = any(not p.startswith('!') for p in pats)
    if extra.startswith('!'):
        ok = ok and (got or not got_x)        # a '!'-pattern never selects
    elif has_pos:
        ok = ok and (got_x or not got)        # a further positive pattern never deselects
    LAST = (tuple(pats), extra, got, got_p, got_x)
    return ok


def flt_reach(*a):
    flt(*a)
    return LAST[2] is True and any(p.startswith('!') for p in LAST[0]) and any(not p.startswith('!') for p in LAST[0])


class T(unittest.TestCase):
    def __init__(self, name):
        super().__init__()
        self.name_ = name

    def runTest(self):
        pass

    def __str__(self):
        return self.name_

    def id(self):
        return 'id-of-' + self.name_         # the filter is defined on str(test), not on the id

    def __ch_deep_realize__(self, memo):
        return self


_OPTS = {}


def _options(argv):
    key = tuple(argv)
    with untraced():
        if key not in _OPTS:
            _OPTS[key] = get_options(['t'] + list(argv), [])
        o = _OPTS[key]
        c = type(o)()
        c.__dict__.update(o.__dict__)
        return c


IMPORTED = []


def plumb(i0, g0, i1, g1, two, m00, m01, m10, m11, which, ol=False):
    """End to end through the real call sites: -t via find_tests /
    tests_from_suite (names = str(test)), -m via find_suites (names = dotted
    module names computed by the real code), --layer via Filter.global_setup."""
    global LAST
    two = cb(two)
    pats = [('!' if g0 else '') + pick(PPOOL, i0)]
    if two:
        pats.append(('!' if g1 else '') + pick(PPOOL, i1))
    which = pick([0, 1, 2, 3, 4, 5], which)
    ol = cb(ol)
    del USED[:]
    names = [['t0', 't1'], ['pk.tests', 'pk.sub.tests'], ['w.A', 'w.B'], ['kp.pk.tests', 'kp.pk.sub.tests'], ['t0', 't1'], ['w.A', 'w.AB']][which]
    M.clear()
    for p in PPOOL:
        M[(p, names[0])] = False
        M[(p, names[1])] = False
    # the two patterns' outcomes on the two names are symbolic
    M[(pats[0].lstrip('!'), names[0])] = m00
    M[(pats[0].lstrip('!'), names[1])] = m01
    if two and pats[1].lstrip('!') != pats[0].lstrip('!'):
        M[(pats[1].lstrip('!'), names[0])] = m10
        M[(pats[1].lstrip('!'), names[1])] = m11
    exp = [n for n in names if _oracle(pats, n)]
    if which == 5:
        # a layer subprocess (--resume-layer w.A) runs the layer it was started for and no other, whatever the inherited
        # --layer patterns say about the others; as a regex, 'w.A' also matches 'w.AB'
        M[('w.A', 'w.AB')] = True
        M[('w.A', 'w.A')] = True
        exp = ['w.A']
    if which in (0, 4):
        argv = []
        if which == 4 and two:
            # legacy positional filters: testrunner -t P0 MODULE_FILTER TEST_FILTER
            argv = ['-t', pats[0], 'pk', pats[1]]
        else:
            for p in pats:
                argv += ['-t', p]
        if ol:
            argv += ['--only-level', '1']
        o = _options(argv)
        o.keepbytecode = True
        suites = [unittest.TestSuite([T('t0'), unittest.TestSuite([T('t1')])])]
        found = F.find_tests(o, suites)
        got = sorted(str(t) for s in found.values() for t in s)
    elif which in (1, 3):
        argv = ['--test-path', '/r']
        for p in pats:
            argv += ['-m', p]
        o = _options(argv)
        del IMPORTED[:]
        sep = F.os.path.sep
        files = ['/r/pk/tests.py', '/r/pk/sub/tests.py']
        orig = (F.find_test_files, F.import_name)
        pkg = 'kp' if which == 3 else ''      # which == 3: the directory is knit in as package 'kp' (--package-path)
        if pkg:
            o.test_path = [('/r', pkg)]
            o.prefix = [('/r' + sep, pkg)]
        F.find_test_files = lambda options: iter([(f.replace('/', sep), pkg) for f in files])

        def imp(name):
            IMPORTED.append(name)
            raise ImportError(name)
        F.import_name = imp
        try:
            list(F.find_suites(o, accept=FL.build_filtering_func(o.module)))
        finally:
            F.find_test_files, F.import_name = orig
        got = sorted(IMPORTED)
    else:
        argv = []
        for p in pats:
            argv += ['--layer', p]
        o = _options(argv)
        o.resume_layer = 'w.A' if which == 5 else None

        class R:
            pass
        r = R()
        r.options = o
        r.errors = []
        r.tests_by_layer_name = {names[0]: 1, names[1]: 2}
        o.output = _Out()
        FL.Filter(r).global_setup()
        got = sorted(r.tests_by_layer_name)
    stray = sorted({u[1] for u in USED if u[1] not in names})
    # patterns reach the matcher exactly as given (or as the module/positional plumbing documents: 'pk' in which == 4)
    known = {p.lstrip('!') if p.startswith('!') else p for p in pats} | {'', '.', 'pk'}
    stray += sorted({'pattern %r' % u[0] for u in USED if u[0] not in known and which != 5})
    LAST = (which, tuple(pats), got, tuple(stray))
    return got == sorted(exp) and not stray


class _Out:
    def __getattr__(self, n):
        return lambda *a, **k: None


def plumb_reach(*a):
    plumb(*a)
    return len(LAST[2]) == 1 and LAST[0] == 1


_P = [('n', 'int')] + [('i%d' % k, 'int') for k in range(4)] + [('g%d' % k, 'bool') for k in range(4)] + \
    [('ma', 'bool'), ('mb', 'bool'), ('mc', 'bool'), ('perm', 'int'), ('xi', 'int'), ('xg', 'bool')]
_C = 'n, i0, i1, i2, i3, g0, g1, g2, g3, ma, mb, mc, perm, xi, xg'
_RANGE = ' and '.join('0 <= i%d < 5' % k for k in range(4)) + ' and 0 <= perm < 6 and 0 <= xi < 5'


def _fv(**kw):
    v = dict(n=2, i0=0, i1=1, i2=0, i3=0, g0=False, g1=True, g2=False, g3=False, ma=True, mb=False, mc=False,
             perm=0, xi=2, xg=False)
    v.update(kw)
    return v


SPEC = {
    'property': 'C08',
    'encoded': ['zope.testrunner.filter.build_filtering_func', 'zope.testrunner.find.find_tests',
                'zope.testrunner.find.tests_from_suite', 'zope.testrunner.find.find_suites',
                'zope.testrunner.filter.Filter.global_setup'],
    'files': ['src/zope/testrunner/filter.py', 'src/zope/testrunner/find.py', 'src/zope/testrunner/options.py'],
    'stubs': ['filter.re -> FakeRe: compile(p).search(v) is an uninterpreted boolean per (pattern, value); any other '
              'matcher method raises', 'find.find_test_files / find.import_name in plumb(which=1)'],
    'assumptions': ["names are non-empty and contain a non-newline character, so '' and '.' match every name",
                    'the stdlib regex engine implements search mode correctly'],
    'outside': ['pattern lists longer than 4 (+1 appended) entries'],
    'harnesses': [
        {'name': 'flt', 'fn': 'flt', 'params': _P, 'call': _C,
         'bounds': {'quick': '1 <= n <= 2 and perm == 0 and ' + _RANGE, 'thorough': '1 <= n <= 3 and (n < 3 or perm <= 1) and ' + _RANGE},
         'slices': {'quick': ['xi == %d and n == %d' % (x, n) for x in range(5) for n in (1, 2)],
                    'thorough': ['xi == %d and n == %d and i0 == %d' % (x, n, i) for x in range(5) for n in (1, 2, 3) for i in range(5)]},
         'reach': 'flt_reach', 'reach_bounds': {'quick': 'n == 2 and perm == 0 and xi == 0 and ' + _RANGE,
                                                'thorough': 'n == 2 and perm == 0 and xi == 0 and ' + _RANGE},
         'timeout': {'quick': 200, 'thorough': 800},
         'fidelity': [_fv(), _fv(n=3, g0=True, i2=3, perm=4), _fv(n=1, g0=True, xg=True)]},
        {'name': 'plumb', 'fn': 'plumb',
         'params': [('i0', 'int'), ('g0', 'bool'), ('i1', 'int'), ('g1', 'bool'), ('two', 'bool'),
                    ('m00', 'bool'), ('m01', 'bool'), ('m10', 'bool'), ('m11', 'bool'), ('which', 'int'), ('ol', 'bool')],
         'call': 'i0, g0, i1, g1, two, m00, m01, m10, m11, which, ol',
         'bounds': {'quick': '0 <= i0 < 5 and 0 <= i1 < 5 and 0 <= which < 6 and (i0 == 0 or i0 == 3) and i1 != 3 and (not ol or which == 0 or which == 4)',
                    'thorough': '0 <= i0 < 5 and 0 <= i1 < 5 and 0 <= which < 6 and (not ol or which == 0 or which == 4)'},
         'slices': {'quick': ['which == %d' % w for w in range(6)],
                    'thorough': ['which == %d and i0 == %d' % (w, i) for w in range(6) for i in range(5)]},
         'reach': 'plumb_reach',
         'fidelity': [dict(i0=0, g0=False, i1=1, g1=True, two=True, m00=True, m01=True, m10=False, m11=True, which=w, ol=(w == 4))
                      for w in range(5)] + [dict(i0=3, g0=False, i1=4, g1=True, two=True, m00=True, m01=False, m10=False, m11=True, which=5, ol=False),
                                            dict(i0=3, g0=True, i1=0, g1=False, two=True, m00=False, m01=True, m10=True, m11=True, which=0, ol=False)]},
    ],
}
