#!/bin/bash
# Runs every thorough check once, sequentially (each uses all cores); logs to .work/thorough/<id>.log
cd "$(dirname "$0")"
mkdir -p .work/thorough
for p in "$@"; do
  s=$(date +%s)
  timeout 2700 ./check $p --tier thorough > .work/thorough/$p.log 2>&1
  rc=$?
  echo "$p rc=$rc $(( $(date +%s) - s ))s $(grep -E "^$p thorough:" .work/thorough/$p.log | tail -1)" >> .work/thorough/summary.txt
done
