"""Per-path recording used by generated wrappers (runs inside CrossHair)."""
ITER = [0]
SEEN = set()
LASTPAIR = [None]


def reset():
    ITER[0] = 0
    SEEN.clear()
    LASTPAIR[0] = None


def record(H, result, exc=None, fid=False):
    """Called at the end of every explored path with the harness module.

    ``H.LAST`` must be built from concrete data (events the real code
    produced); it is the path's observable summary.  For fidelity jobs the
    pair (result, LAST) of the traced execution is kept for comparison with
    the native one.
    """
    try:
        from crosshair.tracers import NoTracing
        from crosshair.core import deep_realize
    except Exception:  # native use
        NoTracing = None
    last = getattr(H, 'LAST', None)
    if NoTracing is None:
        SEEN.add(repr(last))
        return
    rv = None
    if fid and exc is None:
        try:
            rv = deep_realize(result)
        except Exception:
            rv = '?'
    with NoTracing():
        ITER[0] += 1
        if not fid:
            r = None
        elif exc is None:
            r = repr(rv)
        else:
            r = 'EXC ' + type(exc).__name__
        try:
            s = repr(last)
            if type(s) is not str:      # a symbolic str leaked into LAST
                s = '<non-concrete summary>'
        except Exception:
            s = '<unprintable summary>'
        SEEN.add(s)
        LASTPAIR[0] = [r, s]


# ---------------------------------------------------------------- memoised functions of the code under test
# CrossHair deliberately bypasses functools.lru_cache while tracing (every call runs the wrapped function).  A cache in
# zope.testrunner is behaviour of the code under test: within one harness call - one modelled interpreter - a memoised
# function must answer from its cache, as it does natively.  The worker installs `faithful_lru_call` in place of
# CrossHair's patch; the generated wrapper calls fresh() at the start of every path (a fresh interpreter).
MEMO = {}


def fresh():
    MEMO.clear()


def faithful_lru_call(self, *a, **kw):
    import functools
    if not isinstance(self, functools._lru_cache_wrapper):
        raise TypeError
    wrapped = self.__wrapped__
    if not (getattr(wrapped, '__module__', None) or '').startswith('zope.testrunner'):
        return wrapped(*a, **kw)          # CrossHair's own behaviour for everything else
    try:
        from crosshair.core import deep_realize
        key = (deep_realize(a), tuple(sorted(deep_realize(kw).items())))
        hash(key)
    except Exception:
        return wrapped(*a, **kw)
    d = MEMO.setdefault(id(self), {})
    if key in d:
        return d[key]
    v = wrapped(*a, **kw)
    d[key] = v
    return v


def install_faithful_lru():
    import functools
    import crosshair.core as CC
    CC._PATCH_REGISTRATIONS[functools._lru_cache_wrapper.__call__] = faithful_lru_call
