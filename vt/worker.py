"""One CrossHair job in its own interpreter.

usage: python -m vt.worker <job.json>   -> prints one JSON line on stdout

A job names a generated wrapper module (see engine.gen_wrapper) whose single
function ``w`` carries the PEP-316 contract.  The worker

* wraps z3.Solver.check to count solver queries / solver seconds,
* runs CrossHair's analysis through its Python API,
* reports verdict, message, number of paths, and the set of distinct
  concrete summaries (``H.LAST``) the harness produced, one per path.

kind == 'fidelity' additionally runs the harness natively first with the
pinned arguments and compares ``(result, LAST)`` of both executions.
"""
import collections
import importlib
import json
import os
import sys
import time
import traceback


def main():
    job = json.load(open(sys.argv[1]))
    sys.path.insert(0, job['workdir'])
    sys.path.insert(0, job['verif'])
    out = {'id': job['id'], 'kind': job['kind']}
    t0 = time.time()
    # keep real stdout for our JSON line; harnesses swap sys.stdout freely
    real_stdout = os.fdopen(os.dup(1), 'w')
    devnull = open(os.devnull, 'w')
    sys.stdout = devnull
    try:
        import z3
        QS = {'n': 0, 't': 0.0}
        _orig = z3.Solver.check

        def _check(self, *a):
            t = time.perf_counter()
            try:
                return _orig(self, *a)
            finally:
                QS['n'] += 1
                QS['t'] += time.perf_counter() - t
        z3.Solver.check = _check

        from crosshair.core_and_libs import analyze_function, run_checkables
        from crosshair.options import AnalysisOptionSet
        import vt.rec as REC
        REC.install_faithful_lru()

        native = None
        if job['kind'] == 'fidelity':
            H = importlib.import_module(job['hmod'])
            fn = getattr(H, job['hfn'])
            try:
                r = fn(*job['call_args'])
                native = [repr(r), repr(getattr(H, 'LAST', None))]
            except Exception as e:  # noqa
                native = ['EXC ' + type(e).__name__, repr(getattr(H, 'LAST', None))]

        mod = importlib.import_module(job['wmod'])
        REC.reset()
        stats = collections.Counter()
        opts = AnalysisOptionSet(
            per_condition_timeout=job['timeout'],
            per_path_timeout=job.get('path_timeout', 60),
            report_all=True, stats=stats,
            max_uninteresting_iterations=sys.maxsize)
        msgs = run_checkables(analyze_function(mod.w, opts))
        out['messages'] = [{'state': m.state.name, 'message': m.message}
                           for m in msgs]
        out['paths'] = stats.get('num_paths', 0)
        out['iters'] = REC.ITER[0]
        out['summaries'] = sorted(REC.SEEN)[:400]
        out['n_summaries'] = len(REC.SEEN)
        import hashlib
        out['summ_digest'] = hashlib.sha256('\n'.join(sorted(REC.SEEN)).encode()).hexdigest()[:16]
        out['queries'] = QS['n']
        out['solver_s'] = round(QS['t'], 3)
        if job['kind'] == 'fidelity':
            out['native'] = native
            out['traced'] = REC.LASTPAIR[0]
    except BaseException as e:  # noqa
        out['crash'] = ''.join(traceback.format_exception(type(e), e, e.__traceback__))[-3000:]
    out['wall_s'] = round(time.time() - t0, 2)
    real_stdout.write(json.dumps(out, default=repr) + '\n')
    real_stdout.flush()


if __name__ == '__main__':
    main()
