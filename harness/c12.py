"""C12 - reported counts and failure lists equal what actually happened.

counts():  whole real Runner.run() with the real text formatter; the printed
           per-layer summaries, the totals and the 'Tests with failures /
           errors' lists are parsed back and compared with the events the
           world recorded (tests started, failure / error / skip events,
           layer failures, import errors), in every execution mode.
linear():  runner.run_tests() summary arithmetic with *unbounded symbolic*
           countTestCases() values (testsRun bookkeeping is linear
           arithmetic over the counts).
Symbolic: outcome kinds, a skipped test, layer setUp / tearDown faults, import
failure, --repeat, verbosity, execution mode."""
from zope.testrunner import runner as R

from vt import fullrun as FR
from vt import runworld as RW
from vt import world as W
from vt.util import FakeGC, FakeTime, cb, ci, pick, untraced

R.gc = FakeGC
R.time = FakeTime
LAST = None
KA = [W.PASS, W.FAIL, W.ERROR, W.XPASS, W.SKIP_BODY, W.XFAIL, W.SUBFAIL2, W.ERR_TD, W.SKIP_DECO, W.SUB_ERR, W.SKIP_SETUP, W.CLEANUP_ERR]
KB = [W.PASS, W.FAIL, W.ERROR, W.SKIP_BODY]


def counts(mode, ka, kb, sk, imp, su, td, rep2, verbose, strict, nl, fault=0):
    global LAST
    mode = pick(FR.MODES, mode)
    ka, kb = pick(KA, ka), pick(KB, kb)
    sk, imp, rep2, strict, nl = cb(sk), cb(imp), cb(rep2), cb(strict), cb(nl)
    su, td = ci(su, 0, 2), ci(td, 0, 2)
    verbose = ci(verbose, 0, 2)
    fault = ci(fault, 0, 1)          # 1: every layer subprocess dies without delivering its report
    with untraced():
        tdd = {}
        if td == 1:
            tdd['A'] = 1
        elif td == 2:
            tdd['B'] = 1
        if mode == 'nie':
            tdd['A'] = 2
        sud = {1: {'A': 1}, 2: {'B': 1}}.get(su, {})
        kinds = {'a0': W.SKIP_BODY if sk else W.PASS, 'a1': ka, 'b0': kb, 'b1': W.PASS}
        world = FR.World(kinds, su=sud, td=tdd, imp=imp, order=['b0', 'a0', 'b1', 'a1'],
                         strnames={'a1': 'a1 first line\nsecond line', 'b0': 'b0\n(w.T_b0)'} if nl else None)
    argv = (['--repeat', '2'] if rep2 else []) + (['-' + 'v' * verbose] if verbose else [])
    res = FR.run(world, mode, argv=argv, fault=('no_report',) if fault else None)
    with untraced():
        why, summ = oracle(res, world, kinds, mode, imp, su, td, rep2, verbose, strict, fault)
    LAST = (mode, W.KIND_NAMES[ka], W.KIND_NAMES[kb], sk, imp, su, td, rep2, verbose, why, summ, strict, nl, fault)
    return why is None


def oracle(res, world, kinds, mode, imp, su, td, rep2, verbose, strict, fault=0):
    if res.escaped:
        return 'exception %s escaped from Runner.run' % res.escaped, None
    if res.thread_exc:
        return 'exception in a runner thread: %r' % (res.thread_exc,), None
    rep = 2 if rep2 else 1
    parsed = FR.parse_text(res.text, cont=('second line', '(w.T_b0)'))
    # ---- what happened, from the world's own event trace
    started = {}
    for e in res.trace:
        if e[1] == 'setUp':
            started[e[2]] = started.get(e[2], 0) + 1
    exp_layers = {}
    for L in ('A', 'B'):
        names = [n for n in kinds if world.layer_of(n) == L]
        blocked = (su == 1 and L == 'A') or (su == 2 and L == 'B')
        if blocked:
            continue
        n = f = e = s = 0
        for t in names:
            k = kinds[t]
            n += 1
            f += W.N_FAIL.get(k, 0) + (1 if k == W.XPASS else 0)
            e += W.N_ERR.get(k, 0)
            s += W.N_SKIP.get(k, 0)
        exp_layers['w.' + L] = (n, f, e + (1 if imp else 0), s)
    got_layers = {}
    for (name, n, f, e, s) in parsed['layers']:
        got_layers.setdefault(name, []).append((n, f, e, s))
    for name, exp in exp_layers.items():
        rows = got_layers.get(name, [])
        if len(rows) != rep:
            return 'layer %s: %d summary lines, expected %d' % (name, len(rows), rep), None
        for row in rows:
            if row != exp:
                return 'layer %s summary says (tests, failures, errors, skipped) = %r, happened %r' % (name, row, exp), None
    for name in got_layers:
        if name not in exp_layers and name not in ('.EmptyLayer',) and any(r != (0, 0, 0, 0) and r[0] != 0 for r in got_layers[name]):
            return 'summary for a layer that did not run: %s %r' % (name, got_layers[name]), None
    # ---- totals
    # strict: every execution counts (the property's literal reading).  not strict: the 'tests' figure of the
    # total counts one iteration, as upstream's testrunner-repeat.rst documents; everything else accumulates.
    # layers whose subprocess died without a report contribute nothing but one error each
    lost = {c['layer'] for c in res.children} if fault else set()
    counted = {k: v for k, v in exp_layers.items() if k not in lost}
    tot_n = sum(v[0] for v in counted.values()) * (rep if strict else 1)
    tot_f = sum(v[1] for v in counted.values()) * rep
    tot_e = sum(v[2] - (1 if imp else 0) for v in counted.values()) * rep + (1 if imp else 0)
    tot_s = sum(v[3] for v in counted.values()) * rep
    layer_fail = 0
    setups = [e2[2] for e2 in res.trace if e2[1] == 'su']
    tds = [e2[2] for e2 in res.trace if e2[1] == 'td']
    if su == 1:
        layer_fail += setups.count('A')
    if su == 2:
        layer_fail += setups.count('B')
    if td == 1 and mode != 'nie':
        layer_fail += tds.count('A')
    if td == 2:
        layer_fail += tds.count('B')
    if fault:           # tearDown / setUp failures inside a lost child are lost with it; the parent records the child
        layer_fail = sum(1 for e2 in res.trace if e2[0] == 0 and ((e2[1] == 'su' and ((su == 1 and e2[2] == 'A') or (su == 2 and e2[2] == 'B')))
                                                                   or (e2[1] == 'td' and ((td == 1 and e2[2] == 'A' and mode != 'nie') or (td == 2 and e2[2] == 'B')))))
    tot_e += layer_fail + (len(res.children) if fault else 0)
    exp_total = (tot_n, tot_f, tot_e, tot_s)
    if parsed['total'] is None:
        return 'no Total line', None
    if parsed['total'] != exp_total:
        return 'Total says (tests, failures, errors, skipped) = %r, happened %r (mode %s)' % (parsed['total'], exp_total, mode), None
    if res.ran != tot_n:
        return 'Runner.ran %r, executed %r' % (res.ran, tot_n), None
    # ---- names
    if verbose:
        fn, en = parsed['fail_names'], parsed['err_names']
        if len(fn) != tot_f:
            return 'Tests with failures lists %r, %d failure events happened' % (fn, tot_f), None
        if len(en) != tot_e - (1 if imp else 0):
            return 'Tests with errors lists %r, %d error events happened' % (en, tot_e - (1 if imp else 0)), None
        for t, k in kinds.items():
            L = world.layer_of(t)
            if 'w.' + L not in counted:
                continue
            nf = (W.N_FAIL.get(k, 0) + (1 if k == W.XPASS else 0)) * rep
            ne = W.N_ERR.get(k, 0) * rep
            if sum(1 for x in fn if x.split(' ')[0] == t) != nf:
                return 'test %s listed %d times under failures, failed %d times: %r' % (t, sum(1 for x in fn if x.split(' ')[0] == t), nf, fn), None
            if sum(1 for x in en if x.split(' ')[0] == t) != ne:
                return 'test %s listed %d times under errors, errored %d times: %r' % (t, sum(1 for x in en if x.split(' ')[0] == t), ne, en), None
        if fault and sum(1 for x in en if x.startswith('subprocess for ')) != len(res.children):
            return 'lost subprocesses listed %r, %d children died' % ([x for x in en if x.startswith('subprocess')], len(res.children)), None
        if sum(1 for x in en if x.startswith('Layer: ')) != layer_fail:
            return 'layer failures listed %r, happened %d' % ([x for x in en if x.startswith('Layer: ')], layer_fail), None
    return None, (exp_total, tuple(sorted(exp_layers.items())))


def counts_reach(*a):
    counts(*a)
    return LAST[9] is None and LAST[10][0][1] >= 1 and LAST[10][0][3] >= 1 and LAST[0] in ('j2', 'nie')


def jtotal(n, d0, d1, d2, xf):
    """The number of tests the parent adds up for a -j N run covers every layer subprocess that was started, also with
    --stop-on-error and a child that reports a failure while others are still running (the real resume_tests under the
    C06 schedule model: symbolic durations)."""
    global LAST
    from harness import c06
    ok = c06.sched(n, 0, False, d0, d1, d2, 0, 0, 0, 0, 0, 0, xf)
    LAST = ('jtotal',) + tuple(c06.LAST[:6]) + (c06.LAST[7],)
    return ok


def linear(c0, c1, c2, k1):
    """run_tests(): testsRun / summary arithmetic with unbounded symbolic
    countTestCases() of three tests (doctest-like tests count as several)."""
    global LAST
    W.reset()
    k1 = pick([W.PASS, W.FAIL, W.ERROR, W.SKIP_BODY], k1)
    with untraced():
        A = W.mk_layer('A', (), hooks='')
        o = RW.options([])
    tests = [W.mk_test('a0', W.PASS, count=c0), W.mk_test('a1', k1, count=c1), W.mk_test('a2', W.PASS, count=c2)]
    import unittest
    from zope.testrunner.find import name_from_layer
    name_from_layer(A)
    failures, errors, skipped = [], [], []
    ran = R.run_tests(o, unittest.TestSuite(tests), 'w.A', failures, errors, skipped, [])
    summ = [e for e in W.TRACE if e[1] == 'summary']
    ok = (ran == c0 + c1 + c2) and len(summ) == 1 and (summ[0][2] == c0 + c1 + c2) and summ[0][3] == (1 if k1 == W.FAIL else 0) \
        and summ[0][4] == (1 if k1 == W.ERROR else 0) and summ[0][5] == (1 if k1 == W.SKIP_BODY else 0)
    LAST = (W.KIND_NAMES[k1], bool(ok))
    return ok


_P = [('mode', 'int'), ('ka', 'int'), ('kb', 'int'), ('sk', 'bool'), ('imp', 'bool'), ('su', 'int'), ('td', 'int'), ('rep2', 'bool'), ('verbose', 'int'), ('strict', 'bool'), ('nl', 'bool'), ('fault', 'int')]
_C = ', '.join(n for n, _ in _P)
_B = '0 <= fault <= 1 and (fault == 0 or (mode != 0 and mode != 3 and not rep2)) and (rep2 or strict) and 0 <= mode < 5 and 0 <= ka < %d and 0 <= kb < %d and 0 <= su <= 2 and 0 <= td <= 2 and 0 <= verbose <= 2' % (len(KA), len(KB))
_Q = _B + ' and (fault == 0 or (mode <= 2 and ka <= 3 and kb == 0 and not nl and not sk and not imp and su == 0 and td == 0)) and (verbose == 1 or fault == 1) and (not nl or (not rep2 and not sk and not imp and su == 0 and td == 0)) and kb <= 1 and (imp + (su != 0) + (td != 0) <= 1) and (not rep2 or (not imp and su == 0 and td == 0))'
_T = _B + ' and (imp + (su != 0) + (td != 0) <= 1) and (not nl or verbose == 1) and (fault == 0 or verbose != 1)'


def _v(**kw):
    v = dict(mode=0, ka=0, kb=0, sk=False, imp=False, su=0, td=0, rep2=False, verbose=1, strict=True, nl=False, fault=0)
    v.update(kw)
    return v


SPEC = {
    'property': 'C12',
    'encoded': ['zope.testrunner.runner.run_tests (summary arithmetic)', 'runner.TestResult.startTest / add* (counting)', 'runner.Runner.run_tests',
                'statistics.Statistics.report', 'filter.Filter.report', 'formatter.OutputFormatter.summary / totals / tests_with_errors / tests_with_failures',
                'process.SubProcess.report + runner.spawn_layer_in_subprocess (child -> parent transfer)', 'runner.resume_tests (sum of num_ran)'],
    'files': ['src/zope/testrunner/runner.py', 'src/zope/testrunner/statistics.py', 'src/zope/testrunner/formatter.py', 'src/zope/testrunner/process.py',
              'src/zope/testrunner/filter.py'],
    'stubs': ['LoopbackPopen children, synchronous threads, get_options untraced on concrete argv', 'runner.time / statistics.time, runner.gc',
              'unittest.TestResult._exc_info_to_string -> constant', 'linear(): options.output -> recorder, countTestCases() -> symbolic int'],
    'assumptions': ['an import error is added to every layer\'s error figure and once to the total (documented upstream behaviour, testrunner-errors.rst)',
                    'a decorator-skipped test counts as one test run and one skipped (what unittest reports on this interpreter)'],
    'outside': ['subunit / coloured formatters', 'more than two layers with two tests each', '--repeat with N > 2'],
    'harnesses': [
        {'name': 'counts', 'fn': 'counts', 'params': _P, 'call': _C,
         'bounds': {'quick': _Q, 'thorough': _T},
         # (slices are chosen so that none lies completely inside a known-finding region)
         'slices': {'quick': ['mode == %d and ka == %d' % (m, k) for m in range(5) for k in range(len(KA)) if not (m in (1, 4) and k in (4, 8, 10))],
                    'thorough': ['mode == %d and ka %% 4 == %d and verbose == %d and kb %% 2 == %d' % (m, k, vb, b) for m in range(5) for k in range(4) for vb in range(3) for b in range(2)]},
         'reach': 'counts_reach', 'reach_bounds': {'quick': _B + ' and ka == 1 and su == 0 and td == 0 and not imp and verbose == 1',
                                                   'thorough': _B + ' and ka == 1 and su == 0 and td == 0 and not imp and verbose == 1'},
         'timeout': {'quick': 400, 'thorough': 1700},
         'fidelity': [_v(), _v(mode=1, ka=6, sk=True), _v(mode=2, ka=3, imp=True, verbose=2), _v(ka=7, rep2=True, kb=1, strict=False), _v(mode=4, su=1, td=2, verbose=0), _v(mode=1, ka=1, kb=2, nl=True), _v(mode=1, ka=2, fault=1, verbose=0), _v(mode=2, kb=1, fault=1)]},
        {'name': 'jtotal', 'fn': 'jtotal', 'params': [('n', 'int'), ('d0', 'int'), ('d1', 'int'), ('d2', 'int'), ('xf', 'int')], 'call': 'n, d0, d1, d2, xf',
         'bounds': {'quick': '1 <= n <= 4 and 1 <= d0 <= 2 and 1 <= d1 <= 2 and 1 <= d2 <= 2 and 0 <= xf <= 3', 'thorough': '1 <= n <= 4 and 1 <= d0 <= 3 and 1 <= d1 <= 3 and 1 <= d2 <= 3 and 0 <= xf <= 3'},
         'slices': {'quick': ['n == %d' % n for n in range(1, 5)], 'thorough': ['n == %d and xf == %d' % (n, x) for n in range(1, 5) for x in range(4)]},
         'timeout': {'quick': 300, 'thorough': 850},
         'fidelity': [dict(n=2, d0=1, d1=2, d2=2, xf=1), dict(n=3, d0=2, d1=1, d2=1, xf=3)]},
        {'name': 'linear', 'fn': 'linear', 'params': [('c0', 'int'), ('c1', 'int'), ('c2', 'int'), ('k1', 'int')], 'call': 'c0, c1, c2, k1',
         'bounds': {'quick': 'c0 >= 0 and c1 >= 0 and c2 >= 0 and 0 <= k1 < 4', 'thorough': 'c0 >= 0 and c1 >= 0 and c2 >= 0 and 0 <= k1 < 4'},
         'timeout': {'quick': 120, 'thorough': 300},
         'fidelity': [dict(c0=1, c1=5, c2=0, k1=1)]},
    ],
}
