"""C02 - the verdict is 'failed' exactly when something went wrong, in every
mode, independent of what tests print.

verdict(): whole real Runner.run() (configure, features, Find with found
suites incl. a StartUpFailure for a module that cannot be imported,
Runner.run_tests, run_layer, resume_tests, spawn_layer_in_subprocess, child
side via loop-back incl. SubProcess.report) and zope.testrunner.run() for the
exit status.
Symbolic: outcome kinds of tests in two layers, layer setUp fault, layer
tearDown fault (raise / NotImplementedError), import failure, execution mode
(sequential, -j1, -j2, -j3, resumed after NotImplementedError), transport
fault of the children (spawn fails, no report, report truncated, child dies
with a traceback), header look-alike noise printed by every test."""
import zope.testrunner as ZT
from zope.testrunner import runner as R

from vt import fullrun as FR
from vt import world as W
from vt.util import cb, ci, pick, untraced

LAST = None
KA = [W.PASS, W.FAIL, W.ERROR, W.XPASS, W.SKIP_BODY, W.XFAIL, W.SUBFAIL2, W.SYSEXIT, W.SKIP_DECO, W.TD_ERR]
KB = [W.PASS, W.FAIL, W.ERROR, W.XPASS]
FAULTS = [None, ('spawn',), ('no_report',), ('truncate', 4), ('truncate', 0), ('keep_report_lines', 1)]


def verdict(mode, ka, kb, imp, su, td, b_on_a, fault, noise):
    mode = pick(FR.MODES, mode)
    ka, kb = pick(KA, ka), pick(KB, kb)
    return _verdict(mode, ka, kb, imp, su, td, b_on_a, fault, noise)


KO = [W.PASS, W.FAIL, W.FAIL_FIRST, W.ERR_FIRST, W.XPASS]
OPTS = [('--repeat', '2'), ('-t', '^[ab]'), ('--only-level', '2'), ('--repeat', '2', '-t', '^[ab]'), ('--all', '--only-level', '2'), ('-m', 'w')]


def options2(mode, ka, opt, imp):
    """The verdict under option vectors that re-run or re-select tests: --repeat 2 with a test that misbehaves in its
    first execution only, test / level selections next to a module that cannot be imported."""
    mode = pick(FR.MODES, mode)
    ka = pick(KO, ka)
    opt = pick(OPTS, opt)
    return _verdict(mode, ka, W.PASS, imp, 0, 0, False, 0, False, argv=opt, levels=2 if '--only-level' in opt else None)


def options2_reach(*a):
    options2(*a)
    return LAST[9] is None and LAST[10] is True and LAST[12] and '--repeat' in LAST[12]


def _verdict(mode, ka, kb, imp, su, td, b_on_a, fault, noise, argv=(), levels=None):
    global LAST
    imp, b_on_a, noise = cb(imp), cb(b_on_a), cb(noise)
    su = ci(su, 0, 2)          # 0 none, 1 A.setUp raises, 2 B.setUp raises
    td = ci(td, 0, 2)          # 0 none, 1 A.tearDown raises, 2 B.tearDown raises
    fault = pick(FAULTS, fault)
    with untraced():
        tdd = {}
        if td == 1:
            tdd['A'] = 1
        elif td == 2:
            tdd['B'] = 1
        if mode == 'nie':
            tdd['A'] = 2
        sud = {1: {'A': 1}, 2: {'B': 1}}.get(su, {})
        world = FR.World({'a0': W.PASS, 'a1': ka, 'b0': kb, 'b1': W.PASS}, b_on_a=b_on_a, su=sud, td=tdd, imp=imp, noise=noise,
                         order=['b0', 'a0', 'b1', 'a1'], levels={n: levels for n in ('a0', 'a1', 'b0', 'b1')} if levels else None)
    res = FR.run(world, mode, argv=argv, fault=fault)
    # exit status through the public entry point: run() must exit with int(failed)
    with untraced():
        why, exp = oracle(res, mode, ka, kb, imp, su, td, b_on_a, fault)
    LAST = (mode, W.KIND_NAMES[ka], W.KIND_NAMES[kb], imp, su, td, b_on_a, fault, noise, why, res.failed, len(res.children), tuple(argv))
    return why is None


def oracle(res, mode, ka, kb, imp, su, td, b_on_a, fault):
    if res.escaped:
        return 'exception %s escaped from Runner.run' % res.escaped, None
    tests_ran = {e[2] for e in res.trace if e[1] == 'test'}
    setups = {e[2] for e in res.trace if e[1] == 'su'}
    tds = {e[2] for e in res.trace if e[1] == 'td'}
    wrong = []
    if imp:
        wrong.append('import')
    if su == 1 and 'A' in setups:
        wrong.append('A.setUp raised')
    if su == 2 and 'B' in setups:
        wrong.append('B.setUp raised')
    if td == 1 and 'A' in tds and mode != 'nie':
        wrong.append('A.tearDown raised')
    if td == 2 and 'B' in tds:
        wrong.append('B.tearDown raised')
    if W.is_bad(ka) and ('a1' in tests_ran or ka == W.SETUP_ERR):
        wrong.append('a1 ' + W.KIND_NAMES[ka])
    if W.is_bad(kb) and 'b0' in tests_ran:
        wrong.append('b0 ' + W.KIND_NAMES[kb])
    if fault is not None and res.children:
        if fault[0] == 'keep_report_lines':
            # the header arrived, the names did not: a fault only for children that had names to send
            if any(c.get('honest_stderr', b'').splitlines()[-1:] != c.get('stderr', b'').splitlines()[-1:] for c in res.children):
                wrong.append('report of a child cut after its header line')
        else:
            wrong.append('transport fault %r on %d children' % (fault, len(res.children)))
    exp = bool(wrong)
    if bool(res.failed) != exp:
        return 'verdict failed=%r, but went wrong: %r (mode %s, %d children)' % (res.failed, wrong, mode, len(res.children)), exp
    # every layer that can be set up ran its tests somewhere (nothing silently dropped)
    if fault is None and not su:
        for n in ('a0', 'a1', 'b0', 'b1'):
            if n == 'a1' and not W.runs_body(ka):
                continue
            if n not in tests_ran:
                return 'test %s did not run in any process (mode %s)' % (n, mode), exp
    if mode in ('j2', 'j3') and not res.children:
        return 'no children in a -j run', exp
    return None, exp


def verdict_reach(*a):
    verdict(*a)
    return LAST[9] is None and LAST[10] is True and LAST[11] >= 1


IMP_FAIL = [None, ImportError, SyntaxError, SystemExit, 'zero-exit', 'no-tests', 'bad-suite']


def imports(kind, which, mode):
    """A test module that cannot be imported (ImportError, SyntaxError, SystemExit - also sys.exit(0) at module level -,
    defines no tests, returns something that is no TestSuite) makes the verdict 'failed' and never aborts or silently ends
    the run.  Real Find.global_setup -> find_tests -> find_suites with find.find_test_files / find.import_name replaced."""
    global LAST
    import types
    import unittest
    from zope.testrunner import find as F
    from vt import loopback as LB
    from vt import runworld as RW
    kind = pick(IMP_FAIL, kind)
    which = ci(which, 0, 1)
    mode = pick(['seq', 'j2'], mode)
    W.reset()
    with untraced():
        A = W.mk_layer('A', (), hooks='st')
        t0 = W.mk_test('a0', W.PASS, layer=A)
        t1 = W.mk_test('u0', W.PASS)
    n = [0]

    def fake_import(name):
        i = n[0]
        n[0] += 1
        m = types.ModuleType(name)
        tests = [t0] if name.endswith('one') else [t1]
        m.test_suite = lambda: unittest.TestSuite(tests)
        if kind is not None and i % 2 == which:
            if kind == 'zero-exit':
                raise SystemExit(0)
            if kind == 'no-tests':
                del m.test_suite
                return m
            if kind == 'bad-suite':
                m.test_suite = lambda: 42
                return m
            raise kind('injected')
        return m
    saved = (F.find_test_files, F.import_name)
    F.find_test_files = lambda options: iter([('/r/pk/test_one.py', ''), ('/r/pk/test_two.py', '')])
    F.import_name = fake_import
    LB.install()
    LB.reset(lambda: None)          # children discover through the same stubs (found_suites=None)
    escaped = None
    code = None
    try:
        with RW.Captured():
            r = R.Runner(args=['t', '--test-path', '/r', '-k'] + (['-j2'] if mode == 'j2' else []), found_suites=None, script_parts=['t'])
            try:
                r.run()
            except BaseException as e:       # noqa
                if type(e).__name__ in ('IgnoreAttempt', 'UnexploredPath', 'NotDeterministic', 'CrossHairInternal', 'PathTimeout'):
                    raise
                escaped = type(e).__name__
    finally:
        F.find_test_files, F.import_name = saved
    ran = sorted({e[2] for e in W.TRACE if e[1] == 'test'})
    why = None
    if escaped:
        why = 'exception %s left Runner.run (module import %r): no verdict at all' % (escaped, kind)
    elif bool(r.failed) != (kind is not None):
        why = 'verdict failed=%r although a module %s' % (r.failed, 'could not be imported (%r)' % (kind,) if kind is not None else 'imported fine')
    else:
        exp = ['a0', 'u0']
        if kind is not None:
            exp = ['u0'] if which == 0 else ['a0']
        if ran != exp:
            why = 'tests of the importable modules executed: %r, expected %r' % (ran, exp)
    LAST = (getattr(kind, '__name__', kind), which, mode, why, tuple(ran))
    return why is None


def tdmix(e10, e20, e21, td0, td1, td2):
    """Every layer tearDown that raised makes the verdict 'failed' and is recorded, also when a later tearDown of the same
    pass raises NotImplementedError and the run continues in subprocesses (the C01 world: three layers, all own passing
    tests; runner.resume_tests replaced by a recorder)."""
    global LAST
    from harness import c01
    from vt import runworld as RW
    W.reset()
    e10, e20, e21 = cb(e10), cb(e20), cb(e21)
    td = [ci(t, 0, 2) for t in (td0, td1, td2)]
    with untraced():
        layers, bases = c01.build(e10, e20, e21, [0, 0, 0], td, False)
        lt = [(layers[i], [W.mk_test('t%da' % i, W.PASS)]) for i in (2, 0, 1)]
    o = RW.options([])
    r = RW.make_runner(o, lt)
    handed = []

    def fake_resume(script_parts, options, features, layers_, failures, errors, skipped, cwd=None):
        handed.extend(n for n, _l, _t in layers_)
        return 0
    orig = R.resume_tests
    R.resume_tests = fake_resume
    try:
        r.run_tests()
    finally:
        R.resume_tests = orig
    with untraced():
        attempted = [e[2] for e in W.TRACE if e[1] == 'td']
        raised = sorted('Layer: w.%s.tearDown' % n for n in attempted if td[int(n[1])] == 1)
        rec = sorted(str(t) for t, _ in r.errors)
        why = None
        if rec != raised:
            why = 'tearDown of %r raised, recorded errors are %r' % (raised, rec)
        elif bool(r.failed) != bool(raised):
            why = 'verdict failed=%r although tearDown of %r raised' % (r.failed, raised)
    LAST = ('tdmix', e10, e20, e21, tuple(td), why, tuple(attempted), tuple(handed))
    return why is None


def tdmix_reach(*a):
    tdmix(*a)
    return LAST[5] is None and len(LAST[7]) >= 1 and 1 in LAST[4]


def exitcode(failed_world):
    """zope.testrunner.run() exits with int(failed)."""
    global LAST
    failed_world = cb(failed_world)
    with untraced():
        world = FR.World({'a0': W.FAIL if failed_world else W.PASS}, order=['a0'])
    from vt import loopback as LB
    from vt import runworld as RW
    LB.install()
    LB.reset(world.suites)
    W.reset()
    orig = R.Runner
    code = None

    class Pre(orig):
        def __init__(self, *a, **k):
            k['found_suites'] = world.suites()
            orig.__init__(self, *a, **k)
    R.Runner = Pre
    try:
        with RW.Captured():
            try:
                ZT.run(args=['t'], script_parts=['t'], cwd='/')
            except SystemExit as e:
                code = e.code
    finally:
        R.Runner = orig
    LAST = (failed_world, code)
    return code == (1 if failed_world else 0)


_P = [('mode', 'int'), ('ka', 'int'), ('kb', 'int'), ('imp', 'bool'), ('su', 'int'), ('td', 'int'), ('b_on_a', 'bool'), ('fault', 'int'), ('noise', 'bool')]
_C = ', '.join(n for n, _ in _P)
_B = '0 <= mode < 5 and 0 <= ka < %d and 0 <= kb < %d and 0 <= su <= 2 and 0 <= td <= 2 and 0 <= fault < %d' % (len(KA), len(KB), len(FAULTS))
_BAD = '((ka != 0 and ka != 4 and ka != 5 and ka != 8) + (kb != 0) + imp + (su != 0) + (td != 0) + (fault != 0))'
_Q = _B + ' and %s <= 2 and noise and kb <= 1 and fault != 4' % _BAD
_T = _B + ' and %s <= 2' % _BAD


def _v(**kw):
    v = dict(mode=0, ka=0, kb=0, imp=False, su=0, td=0, b_on_a=False, fault=0, noise=True)
    v.update(kw)
    return v


SPEC = {
    'property': 'C02',
    'encoded': ['zope.testrunner.run / run_internal', 'zope.testrunner.runner.Runner.run / configure / run_tests', 'runner.run_layer', 'runner.setup_layer',
                'runner.tear_down_unneeded', 'runner.handle_layer_failure', 'runner.run_tests', 'runner.TestResult', 'runner.resume_tests',
                'runner.spawn_layer_in_subprocess', 'find.Find.global_setup / find_tests / tests_from_suite / StartUpFailure',
                'filter.Filter.global_setup (child branch)', 'process.SubProcess (child side)', 'statistics.Statistics', 'formatter.OutputFormatter'],
    'files': ['src/zope/testrunner/__init__.py', 'src/zope/testrunner/runner.py', 'src/zope/testrunner/process.py', 'src/zope/testrunner/filter.py',
              'src/zope/testrunner/find.py', 'src/zope/testrunner/statistics.py'],
    'stubs': ['runner.subprocess.Popen -> LoopbackPopen (the real child Runner.run() in-process, own stdout/stderr/stdin, logical pid); transport faults '
              'injected on the bytes the child produced', 'runner.threading.Thread -> synchronous thread', 'runner.get_options evaluated untraced on '
              'concrete argv', 'runner.time / statistics.time / shuffle.time, runner.gc', 'found_suites given (a StartUpFailure stands for a module '
              'that cannot be imported; discovery itself is C14)'],
    'assumptions': ['a test whose layer cannot be set up does not count as "a test failed" - the layer failure does'],
    'outside': ['fd-level writes to descriptor 2 of a child (C07 known finding)', 'real OS processes and signals', '-D/--pdb', 'MemoryError / KeyboardInterrupt',
                'more than two layers'],
    'harnesses': [
        {'name': 'verdict', 'fn': 'verdict', 'params': _P, 'call': _C,
         'bounds': {'quick': _Q, 'thorough': _T},
         'slices': {'quick': ['mode == %d and ka == %d' % (m, k) for m in range(5) for k in range(len(KA))],
                    'thorough': ['mode == %d and ka == %d and %s' % (m, k, n) for m in range(5) for k in range(len(KA)) for n in ('noise', 'not noise')]},
         'reach': 'verdict_reach', 'reach_bounds': {'quick': _B + ' and mode == 1 and ka == 1 and kb == 0 and not imp and su == 0 and td == 0 and fault == 0',
                                                    'thorough': _B + ' and mode == 1 and ka == 1 and kb == 0 and not imp and su == 0 and td == 0 and fault == 0'},
         'timeout': {'quick': 400, 'thorough': 1700},
         'fidelity': [_v(), _v(mode=1, ka=3), _v(mode=2, fault=1), _v(mode=2, kb=1, imp=True, noise=False), _v(mode=1, su=2, td=1, b_on_a=True)]},
        {'name': 'options2', 'fn': 'options2', 'params': [('mode', 'int'), ('ka', 'int'), ('opt', 'int'), ('imp', 'bool')], 'call': 'mode, ka, opt, imp',
         'bounds': {'quick': '0 <= mode < 5 and 0 <= ka < %d and 0 <= opt < %d and (opt == 0 or opt == 3 or ka <= 1) and (mode <= 2 or opt <= 1)' % (len(KO), len(OPTS)),
                    'thorough': '0 <= mode < 5 and 0 <= ka < %d and 0 <= opt < %d' % (len(KO), len(OPTS))},
         'slices': {'quick': ['mode == %d' % m for m in range(5)], 'thorough': ['mode == %d and opt == %d' % (m, k) for m in range(5) for k in range(len(OPTS))]},
         'reach': 'options2_reach', 'reach_bounds': {'quick': 'mode == 1 and ka == 2 and opt == 0 and not imp', 'thorough': 'mode == 1 and ka == 2 and opt == 0 and not imp'},
         'timeout': {'quick': 400, 'thorough': 1700},
         'fidelity': [dict(mode=0, ka=2, opt=0, imp=False), dict(mode=1, ka=3, opt=3, imp=True), dict(mode=2, ka=1, opt=2, imp=True), dict(mode=4, ka=0, opt=1, imp=True)]},
        {'name': 'tdmix', 'fn': 'tdmix', 'params': [('e10', 'bool'), ('e20', 'bool'), ('e21', 'bool'), ('td0', 'int'), ('td1', 'int'), ('td2', 'int')],
         'call': 'e10, e20, e21, td0, td1, td2',
         'bounds': {'quick': '0 <= td0 <= 2 and 0 <= td1 <= 2 and 0 <= td2 <= 2', 'thorough': '0 <= td0 <= 2 and 0 <= td1 <= 2 and 0 <= td2 <= 2'},
         'slices': {'quick': ['td0 == %d' % t for t in range(3)], 'thorough': ['td0 == %d and td1 == %d' % (t, u) for t in range(3) for u in range(3)]},
         'reach': 'tdmix_reach', 'timeout': {'quick': 300, 'thorough': 600},
         'fidelity': [dict(e10=True, e20=False, e21=False, td0=2, td1=1, td2=0), dict(e10=False, e20=False, e21=False, td0=1, td1=2, td2=1)]},
        {'name': 'imports', 'fn': 'imports', 'params': [('kind', 'int'), ('which', 'int'), ('mode', 'int')], 'call': 'kind, which, mode',
         'bounds': {'quick': '0 <= kind < %d and 0 <= which <= 1 and 0 <= mode <= 1' % len(IMP_FAIL), 'thorough': '0 <= kind < %d and 0 <= which <= 1 and 0 <= mode <= 1' % len(IMP_FAIL)},
         'slices': {'quick': ['mode == 0', 'mode == 1'], 'thorough': ['mode == 0', 'mode == 1']},
         'timeout': {'quick': 300, 'thorough': 600},
         'fidelity': [dict(kind=3, which=0, mode=0), dict(kind=4, which=1, mode=1), dict(kind=0, which=0, mode=1)]},
        {'name': 'exitcode', 'fn': 'exitcode', 'params': [('failed_world', 'bool')], 'call': 'failed_world',
         'bounds': {'quick': 'True', 'thorough': 'True'},
         'timeout': {'quick': 120, 'thorough': 120},
         'fidelity': [dict(failed_world=True)]},
    ],
}
