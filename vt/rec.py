"""Per-path recording used by generated wrappers (runs inside CrossHair)."""
ITER = [0]
SEEN = set()
LASTPAIR = [None]


def reset():
    ITER[0] = 0
    SEEN.clear()
    LASTPAIR[0] = None


def record(H, result, exc=None, fid=False):
    """Called at the end of every explored path with the harness module.

    ``H.LAST`` must be built from concrete data (events the real code
    produced); it is the path's observable summary.  For fidelity jobs the
    pair (result, LAST) of the traced execution is kept for comparison with
    the native one.
    """
    try:
        from crosshair.tracers import NoTracing
        from crosshair.core import deep_realize
    except Exception:  # native use
        NoTracing = None
    last = getattr(H, 'LAST', None)
    if NoTracing is None:
        SEEN.add(repr(last))
        return
    rv = None
    if fid and exc is None:
        try:
            rv = deep_realize(result)
        except Exception:
            rv = '?'
    with NoTracing():
        ITER[0] += 1
        if not fid:
            r = None
        elif exc is None:
            r = repr(rv)
        else:
            r = 'EXC ' + type(exc).__name__
        try:
            s = repr(last)
            if type(s) is not str:      # a symbolic str leaked into LAST
                s = '<non-concrete summary>'
        except Exception:
            s = '<unprintable summary>'
        SEEN.add(s)
        LASTPAIR[0] = [r, s]
