"""Symbolic test world shared by the harnesses: layers whose hooks record
events (and raise on demand), tests with an outcome *kind*, an event trace
tagged with a logical process id."""
import functools
import sys
import unittest

TRACE = []
PID = [0]


EXECUTIONS = {}      # test name -> number of times its body started (tests whose outcome depends on the iteration)


def reset():
    del TRACE[:]
    PID[0] = 0
    EXECUTIONS.clear()


def ev(*a):
    TRACE.append((PID[0],) + a)


class Boom(Exception):
    """Exception class with a Python-level __str__ (keeps messages symbolic
    under CrossHair; irrelevant natively)."""

    def __init__(self, m='boom'):
        self.m = m

    def __str__(self):
        return self.m


class MyAssert(AssertionError):
    pass


class MyAssertS(AssertionError):
    """failureException with a Python-level __str__ (message stays symbolic)."""

    def __init__(self, m='failed'):
        self.m = m

    def __str__(self):
        return self.m


def mk_syntax_error(msg='bad'):
    """A real SyntaxError (its traceback ends with a 'File "<config>", line 1'
    location line that has no ', in <name>' part)."""
    try:
        compile('x = = 1', '<config>', 'exec')
    except SyntaxError as e:
        return e


class BadStr(Exception):
    """Exception whose str() raises."""

    def __str__(self):
        raise RuntimeError('cannot render')


EXC = [ValueError, KeyError, MyAssert, Boom, mk_syntax_error, BadStr]

# ---------------------------------------------------------------- layers

SU_OK, SU_RAISE = 0, 1
TD_OK, TD_RAISE, TD_NIE = 0, 1, 2


def mk_layer(name, bases=(), su=0, td=0, hooks='stST', tsu=0, ttd=0, instance=False, module='w', falsy=False):
    """hooks: s=setUp t=tearDown S=testSetUp T=testTearDown present."""
    def setUp(self=None):
        ev('su', name)
        if su == 2:          # failure that carries an explicit cause
            try:
                raise KeyError('root cause')
            except KeyError as e:
                raise ValueError('su ' + name) from e
        if su:
            raise ValueError('su ' + name + ': 100% of %s failed %d')      # a message that is no format string

    def tearDown(self=None):
        ev('td', name)
        if td == 3:          # failure that carries an explicit cause
            try:
                raise KeyError('root cause')
            except KeyError as e:
                raise ValueError('td ' + name) from e
        if td == 1:
            raise ValueError('td ' + name + ': 100% of %s failed %d')
        if td == 2:
            raise NotImplementedError

    def testSetUp(self=None):
        # a class layer without its own hook inherits its base's: record the layer the hook was invoked on
        ev('tsu', getattr(self, '__name__', None) or name, sys.stdout, sys.stderr)
        if tsu:
            raise Boom('tsu ' + name)

    def testTearDown(self=None):
        ev('ttd', getattr(self, '__name__', None) or name, sys.stdout, sys.stderr)
        if ttd:
            raise Boom('ttd ' + name)
    ns = {}
    fns = {'s': ('setUp', setUp), 't': ('tearDown', tearDown),
           'S': ('testSetUp', testSetUp), 'T': ('testTearDown', testTearDown)}
    if instance:
        class InstanceLayer:
            def __init__(self):
                self.__name__ = name
                self.__module__ = module
                self.__bases__ = tuple(bases)

            def __repr__(self):
                return '<ilayer %s>' % name


            def __ch_deep_realize__(self, memo):
                return self
        if falsy:          # a layer object that doubles as an (empty) resource registry: len() == 0, bool() is False
            InstanceLayer.__len__ = lambda self: 0
        L = InstanceLayer()
        for h in hooks:
            n, f = fns[h]
            setattr(L, n, f)
        return L
    for h in hooks:
        n, f = fns[h]
        ns[n] = classmethod(f)
    # su == 3 / td == 4: the hook is a C callable that raises - the traceback of the failure contains no frame outside
    # the runner's own module (also what a hook written without @classmethod produces: TypeError at the call)
    if su == 3 and 's' in hooks:
        ns['setUp'] = staticmethod(functools.partial(int, 'su ' + name))
    if td == 4 and 't' in hooks:
        ns['tearDown'] = staticmethod(functools.partial(int, 'td ' + name))
    L = type(name, tuple(bases) or (object,), ns)
    L.__module__ = module
    return L


def lname(layer):
    return layer.__module__ + '.' + layer.__name__


# ---------------------------------------------------------------- tests

(PASS, FAIL, ERROR, SKIP_BODY, SKIP_DECO, XFAIL, ERR_TD, SUBFAIL2, SKIP_SETUP, XPASS,
 CLEANUP_ERR, SYSEXIT, SETUP_ERR, TD_ERR, SUB_ERR, SUBPASS_PASS, SUBPASS_FAIL, SWAP_ERR, KBD, FAIL_FIRST, ERR_FIRST) = range(21)
KIND_NAMES = ['pass', 'fail', 'error', 'skip-in-body', 'skip-decorator', 'expected-failure',
              'body-error+tearDown-error', 'two-failing-subtests', 'skip-in-setUp', 'unexpected-success',
              'cleanup-error', 'SystemExit-in-body', 'setUp-error', 'tearDown-error', 'subtest-error+pass',
              'passing-subtest-then-pass', 'passing-subtest-then-fail', 'error-while-stderr-silenced', 'KeyboardInterrupt-in-body',
              'fails-on-its-first-execution-only', 'errors-on-its-first-execution-only']
# number of failure / error / skip result events each kind produces
N_FAIL = {FAIL: 1, SUBFAIL2: 2, SUBPASS_FAIL: 1, FAIL_FIRST: 1}      # FAIL_FIRST / ERR_FIRST: one event over the whole run (state kept across --repeat iterations)
N_ERR = {ERROR: 1, ERR_TD: 2, CLEANUP_ERR: 1, SYSEXIT: 1, SETUP_ERR: 1, TD_ERR: 1, SUB_ERR: 1, SWAP_ERR: 1, ERR_FIRST: 1}
N_SKIP = {SKIP_BODY: 1, SKIP_DECO: 1, SKIP_SETUP: 1}
BAD = set(N_FAIL) | set(N_ERR) | {XPASS}


def is_bad(kind):
    return kind in BAD


class _Silencer:
    def write(self, s):
        return len(s)

    def flush(self):
        pass


def mk_test(name, kind, layer=None, level=None, exc=0, out=None, count=None, body=None, late=None, td_out=None):
    """A unittest.TestCase with one runTest whose outcome is `kind`.
    out: optional callable(name) run at the start of setUp (writes tokens).
    """
    E = EXC[exc]

    class T(unittest.TestCase):
        def setUp(self):
            ev('setUp', name)
            if out is not None:
                out(name)
            if kind == SKIP_SETUP:
                self.skipTest('skip in setUp')
            if kind == SETUP_ERR:
                raise E('setUp')
            if kind == CLEANUP_ERR:
                self.addCleanup(self._cleanup)
            if kind == SWAP_ERR:        # the test silences stderr with an object that is no StringIO, restores it in a cleanup
                saved = sys.stderr
                sys.stderr = _Silencer()
                self.addCleanup(setattr, sys, 'stderr', saved)

        def _cleanup(self):
            ev('cleanup', name)
            raise E('cleanup')

        def runTest(self):
            ev('test', name)
            if body is not None:
                body()
            if kind in (FAIL_FIRST, ERR_FIRST):
                EXECUTIONS[name] = EXECUTIONS.get(name, 0) + 1
                if EXECUTIONS[name] == 1:
                    if kind == FAIL_FIRST:
                        self.fail('failed the first time ' + name)
                    raise E('error the first time ' + name)
            if kind == FAIL:
                self.fail('failed ' + name)
            elif kind in (ERROR, SWAP_ERR):
                raise E('error ' + name)
            elif kind == SKIP_BODY:
                self.skipTest('why')
            elif kind == XFAIL:
                self.fail('expected')
            elif kind == ERR_TD:
                raise E('body')
            elif kind == SUBFAIL2:
                with self.subTest(i=1):
                    self.fail('sub1')
                with self.subTest(x=0.5):            # parameters may contain dots
                    self.fail('sub2')
            elif kind == SYSEXIT:
                raise SystemExit(3)
            elif kind == KBD:
                raise KeyboardInterrupt
            elif kind == SUB_ERR:
                with self.subTest(i=1):
                    raise E('suberr')
                with self.subTest(i=2):
                    pass
            elif kind in (SUBPASS_PASS, SUBPASS_FAIL):
                with self.subTest(i=1):
                    pass
                if late is not None:       # output written after a passing subtest
                    late(name)
                if kind == SUBPASS_FAIL:
                    self.fail('failed after a passing subtest ' + name)

        def tearDown(self):
            ev('tearDown', name)
            if td_out is not None:      # output written after the body (and after a failure of the body was reported)
                td_out(name)
            if kind in (ERR_TD, TD_ERR):
                raise E('tearDown')

        def __str__(self):
            return name

        def id(self):
            return name

        def __repr__(self):
            return '<T %s>' % name

        def __ch_deep_realize__(self, memo):
            return self

        def __deepcopy__(self, memo):
            return self
    if count is not None:
        T.countTestCases = lambda self: count
    if kind == SKIP_DECO:
        T.runTest = unittest.skip('deco')(T.runTest)
    if kind in (XFAIL, XPASS):
        T.runTest = unittest.expectedFailure(T.runTest)
    T.__name__ = 'T_' + name
    T.__qualname__ = 'T_' + name
    T.__module__ = 'w'
    if layer is not None:
        T.layer = layer
    if level is not None:
        T.level = level
    return T()


def runs_body(kind):
    return kind not in (SKIP_DECO, SKIP_SETUP, SETUP_ERR)


# CrossHair quirk: str.format inside unittest's _SubTest.__str__ may yield a
# lazily-symbolic str; "'%s' % subtest" then fails natively with "__str__
# returned non-string".  Realise the (always concrete) text; a no-op natively.
def _install_subtest_str_shim():
    import unittest.case as UC
    if getattr(UC._SubTest, '_verif_shim', False):
        return
    orig = UC._SubTest.__str__

    def __str__(self):
        s = orig(self)
        try:          # type() lies about symbolic strings under tracing: always realise
            from crosshair.core import realize
            from crosshair.tracers import is_tracing
            if is_tracing():
                s = realize(s)
        except ImportError:
            pass
        return s
    UC._SubTest.__str__ = __str__
    UC._SubTest._verif_shim = True
    UC._SubTest.__ch_deep_realize__ = lambda self, memo: self


_install_subtest_str_shim()
