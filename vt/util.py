"""Helpers shared by the harnesses."""
import contextlib
import io


def cb(x):
    """Concretise a (possibly symbolic) bool by branching on it: the branch is
    a solver decision, the result is a plain Python bool."""
    return True if x else False


def pick(pool, i):
    """Concrete pool element chosen by a (possibly symbolic) index: one solver
    decision per candidate."""
    for k, v in enumerate(pool):
        if i == k:
            return v
    raise AssertionError('index outside pool')


def ci(i, lo, hi):
    """Concretise a small symbolic int in [lo, hi] by case split."""
    for k in range(lo, hi + 1):
        if i == k:
            return k
    raise AssertionError('int outside range')


def untraced():
    """Context manager: suspend CrossHair tracing (no-op natively).  Used only
    around world construction that depends on no undecided symbolic value."""
    try:
        from crosshair.tracers import NoTracing, is_tracing
    except Exception:
        return contextlib.nullcontext()
    if is_tracing():
        return NoTracing()
    return contextlib.nullcontext()


class FakeTime:
    """Replaces the `time` module global of runner/statistics/shuffle."""
    now = 0.0

    @staticmethod
    def time():
        return FakeTime.now

    @staticmethod
    def sleep(x):
        pass


class Stream(io.StringIO):
    """StringIO that CrossHair's print()/'%s' interception must not copy."""

    def __ch_deep_realize__(self, memo):
        return self

    def __deepcopy__(self, memo):
        return self


class KeepBytes(io.BytesIO):
    """BytesIO that remembers its value when closed (SubProcess.report closes
    the child's stdout)."""
    saved = None

    def close(self):
        if self.saved is None:
            self.saved = self.getvalue()
        super().close()

    def value(self):
        return self.saved if self.saved is not None else self.getvalue()

    def __ch_deep_realize__(self, memo):
        return self

    def __deepcopy__(self, memo):
        return self


class TextOut(io.TextIOWrapper):
    def __ch_deep_realize__(self, memo):
        return self

    def __deepcopy__(self, memo):
        return self


def mk_text_out():
    return TextOut(KeepBytes(), encoding='utf-8', write_through=True, errors='backslashreplace')


def install_clocks():
    from zope.testrunner import runner as R
    import zope.testrunner.statistics as ST
    import zope.testrunner.shuffle as SH
    R.time = FakeTime
    ST.time = FakeTime
    SH.time = FakeTime


class FakeGC:
    """Replaces runner.gc where garbage collection is not the subject:
    gc.collect() on CrossHair's heap costs ~30 ms and the runner calls it
    two or three times per layer run."""
    garbage = []
    DEBUG_SAVEALL = 0

    @staticmethod
    def collect(*a):
        return 0

    @staticmethod
    def get_debug():
        return 0

    @staticmethod
    def set_debug(f):
        pass

    @staticmethod
    def get_referents(*a):
        return []


def install_fake_pdb():
    """-D/--post-mortem without a human: the debugger returns at once (the
    runner then raises EndRun, as it does when the user leaves pdb)."""
    import types
    import zope.testrunner.debug as D
    D.pdb = types.SimpleNamespace(post_mortem=lambda tb=None: None, set_trace=lambda *a, **k: None)
    D.ipdb = None
